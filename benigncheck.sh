#!/bin/sh
# Runs all 19 quick checks (reduced example count) against a behaviour-preserving refactoring of /repo applied to a
# scratch copy.  Any exit 1 is a false alarm of the machinery (or the refactoring is not behaviour preserving).
# usage: benigncheck.sh <diff> [examples]
cd "$(dirname "$0")"
./sensitivity.py "$1" C01 C02 C03 C04 C05 C06 C07 C08 C09 C10 C11 C12 C13 C14 C15 C16 C17 C18 C19 --examples=${2:-120} | /venv/bin/python -c "
import json,sys
r=json.load(sys.stdin)
bad={k:v for k,v in r['checks'].items() if v['exit']!=0}
print(r['patch'], 'baseline_missing=', r['baseline_missing'], 'ALARMS' if bad else 'quiet', json.dumps(bad)[:1500])"
