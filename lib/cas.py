"""Helpers around the CasADi engine: step symbolically, compile, evaluate by argument name."""
from lib import spec as S
from lib.sut import CasadiEngine, cs, np


class Stepped:
    """A network stepped symbolically with a CasADi engine; to_function can be called repeatedly."""

    def __init__(self, spec, sym="SX", opts=(), overrides=None, par_overrides=None, built=None, init=None, restep=False):
        self.spec = spec
        self.net, self.els, self.nodes = built or S.build(spec, overrides)
        self.eng = CasadiEngine(sym)
        self.pars = S.pars_kwargs(spec)
        if par_overrides:
            self.pars.update(par_overrides)
        self.held = {}
        ic = None
        if init:
            # caller-held symbols for a drawn subset of variables, in a drawn key order: init = [[id, [vars...]], ...]
            XX = self.eng.sym_type
            nm = names_by_id(spec)
            ic = {}
            sizes = var_sizes(spec)
            same_names = bool(init) and init[0][0] == "$same-names"  # all caller symbols called "x"
            if same_names:
                init = init[1:]
            for i, vars_ in init:
                d = {}
                for var in vars_:
                    scaled = var.endswith("*1.2")  # the caller supplies an expression of its own fresh symbol
                    var = var[:-4] if scaled else var
                    x = XX.sym("x" if same_names else f"{var}_{nm[i]}", sizes[(i, var)], 1)
                    d[var] = 1.2 * x if scaled else x
                    self.held[(i, var)] = x
                ic[self.els[i]] = d
        if restep:
            # variables are created by a first full step with the plain numbers; then every element is stepped
            # again through the element-level API (no re-initialisation) with the actual (symbolic) parameters
            first = {k: (v * 1.37 if isinstance(v, float) and k in spec["pars"] else v) for k, v in S.pars_kwargs(spec).items()}
            self.net.step(init_conditions=ic, engine=self.eng, **S.opts_kwargs(opts), **first)  # other numbers: nothing of this step may survive
            flags = {name: (name in (opts or ())) for name in S.OPT_NAMES}
            for o in self.net.origins:
                o.step(net=self.net, engine=self.eng, **flags, **self.pars)
            for _, _, l in self.net.links:
                l.step(net=self.net, engine=self.eng, **flags, **self.pars)
        else:
            self.net.step(init_conditions=ic, engine=self.eng, **S.opts_kwargs(opts), **self.pars)

    def to_function(self, compact=0, more_out=False, parameters=None):
        # a parameter declared under a key that is also a model-parameter name (e.g. "T") is forwarded by
        # to_function itself; passing it twice is a caller error, not a property of the library
        others = {k: v for k, v in self.pars.items() if not (parameters and k in parameters)}
        return self.eng.to_function(self.net, compact=compact, more_out=more_out, parameters=parameters, **others)


def var_sizes(spec):
    out = {}
    for l in spec["links"]:
        out[(l["id"], "rho")] = out[(l["id"], "v")] = l["N"]
        if l.get("vsl") is not None:
            out[(l["id"], "v_ctrl")] = len(l["vsl"])
    for o in spec["origins"]:
        if o["kind"] != "ideal":
            for v in ("w", "d", "v_ctrl", "r", "q"):
                out[(o["id"], v)] = 1
    for d in spec["dests"]:
        out[(d["id"], "d")] = 1
    return out


def compile_net(
    spec,
    sym="SX",
    compact=0,
    more_out=False,
    opts=(),
    overrides=None,
    par_overrides=None,
    parameters=None,
    built=None,
    init=None,
):
    """Builds a fresh network, steps it with a CasADi engine (engine-created symbols, or caller-held
    symbols for the variables listed in `init`), compiles.  Returns (F, net, els)."""
    st = Stepped(spec, sym, opts, overrides, par_overrides, built, init)
    F = st.to_function(compact, more_out, parameters)
    return F, st.net, st.els


def names_by_id(spec):
    d = {}
    for grp in ("links", "origins", "dests"):
        for e in spec[grp]:
            d[e["id"]] = e["name"]
    return d


def args_by_name(spec, state):
    nm = names_by_id(spec)
    out = {}
    for i, s in state.items():
        for var, vals in s.items():
            out[f"{var}_{nm[i]}"] = cs.DM(np.array(vals, dtype=float).reshape(-1, 1)) if len(vals) else cs.DM(0, 1)
    return out


def eval_level0(F, spec, state, extra=None):
    """Evaluates a compact=0 function by argument names (names must be unique in the spec).
    Returns (next: {id: {var: array}}, raw: {output name: array})."""
    args = args_by_name(spec, state)
    if extra:
        args.update(extra)
    known = set(F.name_in())
    unknown = set(args) - known
    # size-0 v_ctrl arguments may legitimately be dropped or kept; anything else unknown is a layout
    # problem reported by the caller
    res = F.call({k: v for k, v in args.items() if k in known})
    raw = {k: np.array(v, dtype=float).reshape(-1) for k, v in res.items()}
    nm = names_by_id(spec)
    nxt = {}
    for i, name in nm.items():
        for var in ("rho", "v", "w"):
            key = f"{var}_{name}+"
            if key in raw:
                nxt.setdefault(i, {})[var] = raw[key]
    return nxt, raw, unknown, known - set(args)
