"""Helpers around the CasADi engine: step symbolically, compile, evaluate by argument name."""
from lib import spec as S
from lib.sut import CasadiEngine, cs, np


def compile_net(
    spec,
    sym="SX",
    compact=0,
    more_out=False,
    opts=(),
    overrides=None,
    par_overrides=None,
    parameters=None,
    built=None,
):
    """Builds a fresh network, steps it with a CasADi engine creating its own symbols, compiles.
    Returns (F, net, els)."""
    net, els, nodes = built or S.build(spec, overrides)
    eng = CasadiEngine(sym)
    pars = S.pars_kwargs(spec)
    if par_overrides:
        pars.update(par_overrides)
    net.step(engine=eng, **S.opts_kwargs(opts), **pars)
    # a parameter declared under a key that is also a model-parameter name (e.g. "T") is forwarded by
    # to_function itself; passing it twice is a caller error, not a property of the library
    others = {k: v for k, v in pars.items() if not (parameters and k in parameters)}
    F = eng.to_function(net, compact=compact, more_out=more_out, parameters=parameters, **others)
    return F, net, els


def names_by_id(spec):
    d = {}
    for grp in ("links", "origins", "dests"):
        for e in spec[grp]:
            d[e["id"]] = e["name"]
    return d


def args_by_name(spec, state):
    nm = names_by_id(spec)
    out = {}
    for i, s in state.items():
        for var, vals in s.items():
            out[f"{var}_{nm[i]}"] = cs.DM(np.array(vals, dtype=float).reshape(-1, 1)) if len(vals) else cs.DM(0, 1)
    return out


def eval_level0(F, spec, state, extra=None):
    """Evaluates a compact=0 function by argument names (names must be unique in the spec).
    Returns (next: {id: {var: array}}, raw: {output name: array})."""
    args = args_by_name(spec, state)
    if extra:
        args.update(extra)
    known = set(F.name_in())
    unknown = set(args) - known
    # size-0 v_ctrl arguments may legitimately be dropped or kept; anything else unknown is a layout
    # problem reported by the caller
    res = F.call({k: v for k, v in args.items() if k in known})
    raw = {k: np.array(v, dtype=float).reshape(-1) for k, v in res.items()}
    nm = names_by_id(spec)
    nxt = {}
    for i, name in nm.items():
        for var in ("rho", "v", "w"):
            key = f"{var}_{name}+"
            if key in raw:
                nxt.setdefault(i, {})[var] = raw[key]
    return nxt, raw, unknown, known - set(args)
