"""Allowed-dependency relation of C10, derived from the plain-data spec only.

For every next-state entry (element id, var, k) the set of input entries (element id, var, k) it
may depend on, as listed in the property: own segment; the segment (or node inflow's ingredients)
immediately upstream; the density immediately downstream (first segments of the leaving links or the
destination's scenario); its own speed limit; for first/last segments the merging ramp and the lane
drop; for a queue its own queue, demand, control and the first segment of its link.
"""
from lib import spec as S


def origin_inputs(spec, o):
    """Input entries an origin's flow reads: its own variables and the first segment of its link."""
    k = o["kind"]
    l = S.out_links(spec, o["node"])[0]
    if k == "ideal":
        return {(l["id"], "rho", 0), (l["id"], "v", 0)}
    s = {(o["id"], "w", 0), (o["id"], "d", 0)}
    if k == "main":
        s |= {(o["id"], "v_ctrl", 0), (l["id"], "v", 0)}
    elif k in ("ramp_in", "ramp_out"):
        s |= {(o["id"], "r", 0), (l["id"], "rho", 0)}
    elif k == "simp_lim":
        s |= {(o["id"], "q", 0), (l["id"], "rho", 0)}
    else:  # simp_unl: the desired flow only
        s = {(o["id"], "q", 0)}
    return s


def allowed(spec):
    A = {}
    delta = spec["pars"].get("delta")
    for o in spec["origins"]:
        if o["kind"] != "ideal":
            A[(o["id"], "w", 0)] = {(o["id"], "w", 0), (o["id"], "d", 0)} | origin_inputs(spec, o)
    for l in spec["links"]:
        N, i = l["N"], l["id"]
        u, dn = l["up"], l["down"]
        ins = S.in_links(spec, u)
        o_up = S.origin_at(spec, u)
        inflow = set()
        for li in ins:
            inflow |= {(li["id"], "rho", li["N"] - 1), (li["id"], "v", li["N"] - 1)}
        if o_up is not None:
            inflow |= origin_inputs(spec, o_up)
        upspeed = set()
        for li in ins:
            upspeed.add((li["id"], "v", li["N"] - 1))
            if len(ins) >= 2:
                upspeed.add((li["id"], "rho", li["N"] - 1))
        d_dn = S.dest_at(spec, dn)
        down = set()
        if d_dn is not None:
            if d_dn["kind"] == "cong":
                down.add((d_dn["id"], "d", 0))
        else:
            for lo in S.out_links(spec, dn):
                down.add((lo["id"], "rho", 0))
        for k in range(N):
            own = {(i, "rho", k), (i, "v", k)}
            # density
            a = set(own)
            a |= inflow if k == 0 else {(i, "rho", k - 1), (i, "v", k - 1)}
            A[(i, "rho", k)] = a
            # speed
            b = set(own)
            b |= upspeed if k == 0 else {(i, "v", k - 1)}
            b |= down if k == N - 1 else {(i, "rho", k + 1)}
            if l.get("vsl") is not None and k in l["vsl"]:
                b.add((i, "v_ctrl", l["vsl"].index(k)))
            if k == 0 and delta is not None and o_up is not None and o_up["kind"] in S.RAMP_KINDS:
                b |= origin_inputs(spec, o_up)
            A[(i, "v", k)] = b
    return A


def input_entries(spec):
    """All input entries (id, var, k) in a fixed order."""
    out = []
    for l in spec["links"]:
        out += [(l["id"], "rho", k) for k in range(l["N"])] + [(l["id"], "v", k) for k in range(l["N"])]
        if l.get("vsl") is not None:
            out += [(l["id"], "v_ctrl", k) for k in range(len(l["vsl"]))]
    for o in spec["origins"]:
        k = o["kind"]
        if k == "ideal":
            continue
        out += [(o["id"], "w", 0), (o["id"], "d", 0)]
        out.append((o["id"], "v_ctrl" if k == "main" else "r" if k.startswith("ramp") else "q", 0))
    for d in spec["dests"]:
        if d["kind"] == "cong":
            out.append((d["id"], "d", 0))
    return out
