"""Coverage-guided fuzzing of one property (child process).

atheris (libFuzzer) mutates a byte string; Hypothesis' `fuzz_one_input` decodes the bytes into the
same structured case the property's strategy generates (so the fuzzer reaches the logic instead of
dying in input validation); the property's own oracle `check_case` runs inside the target.  The code
under test (package sym_metanet only) is instrumented for coverage feedback.

A violation does not stop the campaign: its signature is recorded (with the decoded case) and
excluded, so the search continues behind it.  Results are flushed to <out> regularly because
atheris.Fuzz() never returns.

usage: fuzz_child.py <Cxx> <tier> <seed> <runs> <out.json> <corpus dir> [excluded signatures...]
"""
import json
import os
import sys

ROOT = os.path.dirname(os.path.dirname(os.path.abspath(__file__)))
sys.path.insert(0, os.path.join(ROOT, ".deps"))
sys.path.insert(0, ROOT)

import atheris  # noqa: E402

with atheris.instrument_imports(include=["sym_metanet"], enable_loader_override=False):
    from lib import sut  # noqa: E402,F401  (imports sym_metanet from the working tree, instrumented)

import importlib  # noqa: E402

import hypothesis  # noqa: E402
from hypothesis import HealthCheck, given, settings  # noqa: E402

from lib import harness  # noqa: E402


def main():
    prop, tier, seed, runs, out, corpus = sys.argv[1:7]
    excluded = set(sys.argv[7:])
    mod = importlib.import_module(f"props.{prop.lower()}")
    stats = harness.Stats()
    found = []
    state = {"n": 0}

    def flush():
        tmp = out + ".tmp"
        with open(tmp, "w") as f:
            json.dump(
                {
                    "evaluations": stats.evaluations,
                    "nontrivial_hashes": sorted(stats.nontrivial_hashes),
                    "labels": stats.labels,
                    "counters": stats.counters,
                    "excluded": stats.excluded,
                    "samples": [harness.enc(c) for c in stats.first + stats.last],
                    "found": [(s, m, harness.enc(c)) for s, m, c in found],
                },
                f,
            )
        os.replace(tmp, out)

    def body(case):
        ctx = harness.Ctx(excluded)
        try:
            mod.check_case(case, ctx)
        except harness.Violation as v:
            found.append((v.signature, v.message, case))
            excluded.add(v.signature)
            stats.record(case, ctx)
            flush()
            return
        except Exception as e:  # harness bug on this case: inconclusive, counted
            harness.note_harness_exception(stats, ctx, e)
        stats.record(case, ctx)
        state["n"] += 1
        if state["n"] % 20 == 0:
            flush()

    test = settings(database=None, deadline=None, suppress_health_check=list(HealthCheck), verbosity=hypothesis.Verbosity.quiet)(
        given(mod.strategy(tier))(body)
    )
    fuzz_one = test.hypothesis.fuzz_one_input

    def target(data):
        fuzz_one(data)

    flush()
    os.makedirs(corpus, exist_ok=True)
    # starting corpus: a few long pseudo-random byte strings (deterministic in the seed).  The structured
    # cases need hundreds of draws; from an empty corpus libFuzzer would spend the whole budget on inputs
    # that are too short to decode.  An all-zero input is added as well (Hypothesis decodes it to the
    # simplest case).
    import random

    rnd = random.Random(int(seed))
    n_valid = tries = 0
    while n_valid < 12 and tries < 400:
        # only byte strings that Hypothesis decodes into a complete case are useful seeds (a random string is
        # rejected with high probability for the large structured cases); the canonical form is stored
        tries += 1
        buf = bytes(8192) if tries == 1 else rnd.randbytes(rnd.choice([2048, 8192]))
        canon = fuzz_one(buf)
        if canon is not None:
            with open(os.path.join(corpus, f"seed{n_valid}"), "wb") as f:
                f.write(bytes(canon))
            n_valid += 1
    flush()
    argv = [sys.argv[0], corpus, f"-runs={runs}", f"-seed={max(1, int(seed))}", "-max_len=16384", "-len_control=0", "-print_final_stats=0", "-verbosity=0"]
    atheris.Setup(argv, target)
    try:
        atheris.Fuzz()
    finally:
        flush()


if __name__ == "__main__":
    main()
