"""Hypothesis strategies: valid networks by construction (growth grammar), parameters, states.

Every random choice is a Hypothesis draw, so shrinking and replay work.
"""
import math

from hypothesis import strategies as st

from lib import spec as S

ORIG_SRC = list(S.ORIGIN_KINDS)
ORIG_RAMP = list(S.RAMP_KINDS)
MAX_NODES = 9


def fl(lo, hi, specials=(), floor=1e-6):
    """Floats in {lo} U [lo + floor*(hi-lo), hi] plus the given special values.

    The floor keeps generated magnitudes away from the subnormal range, where products such as
    rho*v*lanes lose all relative precision and the order of floating-point operations (which the
    property does not fix) would decide the result."""
    span = hi - lo
    base = st.floats(lo + floor * span, hi, allow_nan=False, allow_infinity=False)
    opts = [base, st.just(float(lo))]
    if specials:
        opts.append(st.sampled_from([float(s) for s in specials]))
    return st.one_of(*opts)


def pos(lo, hi):
    return st.floats(lo, hi, allow_nan=False, allow_infinity=False)


@st.composite
def topologies(draw, max_ops=10, min_ops=0, want=None, log=None):
    """Growth grammar; returns (nodes, edges, origin_role, dest) with validity preserved by
    every operation.  want: optional set of op names that are tried first (bias)."""
    nodes, edges, origin, dest = [], [], {}, {}

    def new():
        nm = f"n{len(nodes)}"
        nodes.append(nm)
        return nm

    def note(op, **kw):
        # growth log: which elements each operation created (used to stage a network in histories)
        if log is not None:
            log.append(dict(op=op, **kw))

    def seed():
        k = draw(st.integers(0, 3))
        if k <= 1:
            s, t = new(), new()
            edges.append((s, t))
            origin[s] = "src"
            dest[t] = True
            note("seed", edges=[len(edges) - 1], origins=[s], dests=[t])
        elif k == 2:
            r = new()
            edges.append((r, r))
            note("seed", edges=[len(edges) - 1], origins=[], dests=[])
        else:
            a, b = new(), new()
            edges.extend([(a, b), (b, a)])
            note("seed", edges=[len(edges) - 2, len(edges) - 1], origins=[], dests=[])

    seed()
    nops = draw(st.integers(min_ops, max_ops))
    for _ in range(nops):
        room = len(nodes) < MAX_NODES
        mids = [n for n in nodes if n not in dest and origin.get(n) != "src"]
        free_mids = [n for n in mids if n not in origin]
        ops = []
        if room:
            ops.append("subdivide")
            if len(nodes) < MAX_NODES - 1:
                ops.append("seed")
            if free_mids:
                ops.append("branch")
            if mids:
                ops.append("source")
        eset = set(edges)
        pairs = [(u, v) for u in free_mids for v in mids if (u, v) not in eset]
        if pairs:
            ops.append("link")
        ramp_ok = [n for n in free_mids if sum(1 for e in edges if e[0] == n) == 1]
        if ramp_ok:
            ops.append("ramp")
        if not ops:
            break
        op = draw(st.sampled_from(ops))
        if op == "subdivide":
            i = draw(st.integers(0, len(edges) - 1))
            u, v = edges[i]
            m = new()
            edges[i] = (u, m)
            edges.append((m, v))
            note("subdivide", edges=[len(edges) - 1], origins=[], dests=[])
        elif op == "seed":
            seed()
        elif op == "branch":
            u = draw(st.sampled_from(free_mids))
            k = new()
            edges.append((u, k))
            dest[k] = True
            note("branch", edges=[len(edges) - 1], origins=[], dests=[k])
        elif op == "source":
            v = draw(st.sampled_from(mids))
            s = new()
            edges.append((s, v))
            origin[s] = "src"
            note("source", edges=[len(edges) - 1], origins=[s], dests=[])
        elif op == "link":
            edges.append(draw(st.sampled_from(pairs)))
            note("link", edges=[len(edges) - 1], origins=[], dests=[])
        elif op == "ramp":
            n_ = draw(st.sampled_from(ramp_ok))
            origin[n_] = "ramp"
            note("ramp", edges=[], origins=[n_], dests=[])
    return nodes, edges, origin, dest


@st.composite
def link_params(draw, integer_a="mixed"):
    """integer_a: "mixed" (real or integer exponent), "mostly" (3/4 integer), "always"."""
    rho_max = draw(pos(80, 300))
    if integer_a == "always" or (integer_a == "mostly" and draw(st.integers(0, 3)) > 0):
        a = float(draw(st.integers(1, 4)))
    else:
        a = draw(st.one_of(pos(0.8, 4), st.sampled_from([1.0, 2.0, 3.0])))
    return dict(
        lam=draw(st.integers(1, 5)),
        L=draw(pos(0.2, 3)),
        rho_max=rho_max,
        rho_crit=draw(pos(10, 0.7 * rho_max)),
        v_free=draw(pos(30, 160)),
        a=a,
    )


@st.composite
def model_pars(draw):
    return dict(
        T=draw(pos(1, 60)) / 3600,
        tau=draw(pos(3, 60)) / 3600,
        eta=draw(pos(1, 150)),
        kappa=draw(pos(1, 100)),
        delta=draw(st.one_of(st.none(), fl(0, 0.1))),
        phi=draw(st.one_of(st.none(), fl(0, 5))),
    )


@st.composite
def plans(draw, nodes, links, origins, dests):
    """A construction plan mixing the public construction calls in a drawn order."""
    mode = draw(st.sampled_from(["none", "link", "links", "path", "mixed"]))
    if mode == "none":
        return []
    order = list(draw(st.permutations([l["id"] for l in links])))
    by_id = {l["id"]: l for l in links}
    ops = []
    remaining = list(order)
    while remaining:
        m = mode if mode != "mixed" else draw(st.sampled_from(["link", "links", "path"]))
        if m == "link":
            ops.append(["link", remaining.pop(0)])
        elif m == "links":
            k = draw(st.integers(1, min(3, len(remaining))))
            ops.append(["links", remaining[:k]])
            del remaining[:k]
        else:
            chain = [remaining.pop(0)]
            while len(chain) < 4:
                nxt = [i for i in remaining if by_id[i]["up"] == by_id[chain[-1]]["down"]]
                if not nxt:
                    break
                chain.append(nxt[0])
                remaining.remove(nxt[0])
            ops.append(["path", chain, draw(st.booleans()), draw(st.booleans())])
    for o in origins:
        ops.append(["origin", o["id"]])
    for d in dests:
        ops.append(["dest", d["id"]])
    ops = list(draw(st.permutations(ops)))
    # replacement histories: a throwaway element first, (use), then the real one on the same edge / node
    for _ in range(draw(st.sampled_from([0, 0, 0, 1, 2]))):
        ids = [l["id"] for l in links] + [o["id"] for o in origins] + [d["id"] for d in dests]
        i = draw(st.sampled_from(ids))

        def adds(op):
            return (op[0] in ("link", "origin", "dest") and op[1] == i) or (op[0] in ("links", "path") and i in op[1]) or (
                op[0] == "path" and ((op[2] and any(o["id"] == i and o["node"] == next(l for l in links if l["id"] == op[1][0])["up"] for o in origins))
                                     or (op[3] and any(d["id"] == i and d["node"] == next(l for l in links if l["id"] == op[1][-1])["down"] for d in dests))))

        first = next((k for k, op in enumerate(ops) if adds(op)), None)
        if first is None:
            continue
        pos = draw(st.integers(0, first))
        ops.insert(pos, ["dummy", i])
        if draw(st.booleans()):
            ops.insert(pos + 1, [draw(st.sampled_from(["read", "trystep"]))])
    # second phase on the completed network: use it, replace an element by a throwaway object, use it, and put
    # the real element back through a drawn construction call
    if draw(st.integers(0, 3)) == 0:
        ops.append([draw(st.sampled_from(["read", "trystep", "trystep"]))])
        ids = [l["id"] for l in links] + [o["id"] for o in origins] + [d["id"] for d in dests]
        for i in draw(st.lists(st.sampled_from(ids), min_size=1, max_size=2, unique=True)):
            ops.append(["dummy", i])
            if draw(st.booleans()):
                ops.append([draw(st.sampled_from(["read", "trystep"]))])
            if i.startswith("L"):
                ops.append(draw(st.sampled_from([["link", i], ["links", [i]], ["links", [i]], ["path", [i], False, False]])))
            elif i.startswith("O"):
                ops.append(["origin", i])
            else:
                ops.append(["dest", i])
    # an origin / destination object that already served in another network
    if (origins or dests) and draw(st.integers(0, 7)) == 0:
        e = draw(st.sampled_from([o["id"] for o in origins] + [d["id"] for d in dests]))
        ops.insert(0, ["elsewhere", e])
    # interleave reads / steps of the partially built network (histories: build, use, extend, use)
    for _ in range(draw(st.sampled_from([0, 0, 1, 2]))):
        ops.insert(draw(st.integers(0, len(ops))), [draw(st.sampled_from(["read", "trystep"]))])
    # a path op attaches origin/dest itself; a later explicit op re-attaches the same object (no-op)
    if draw(st.booleans()):
        pre = list(draw(st.permutations([n["id"] for n in nodes])))
        k = draw(st.integers(1, len(pre)))
        ops.insert(0, ["nodes", pre[:k]] if draw(st.booleans()) else ["node", pre[0]])
    return ops


@st.composite
def merge_stars(draw):
    """3..5 source links merging at one node into one link (optionally followed by a bifurcation): many structurally
    identical sub-expressions, which is where CasADi's common-subexpression elimination merges terms.  Names are
    distinct, clash, or collide with CasADi's per-entry names (link "a" with >=2 segments and link "a_1")."""
    K = draw(st.integers(3, 5))
    shared = draw(st.booleans())
    common = draw(link_params())
    nodes = [f"n{i}" for i in range(K + 2)]
    mode = draw(st.sampled_from(["distinct", "clash", "entry"]))
    base = draw(st.sampled_from(["a", "A", "L"]))
    pool = {"distinct": [f"{base}{i}" for i in range(K + 1)], "clash": [base, base + "b"],
            "entry": [base, f"{base}_1", f"{base}_0", "B"]}[mode]
    links = []
    for k in range(K + 1):
        p = dict(common) if shared else draw(link_params())
        up, down = (nodes[k], nodes[K]) if k < K else (nodes[K], nodes[K + 1])
        nm = pool[k] if mode == "distinct" else draw(st.sampled_from(pool))
        links.append(dict(id=f"L{k}", name=nm, up=up, down=down, N=draw(st.integers(1, 3)), turnrate=1.0, vsl=None, alpha=None, **p))
    if mode == "entry":
        perm = draw(st.permutations(range(K)))
        links[perm[0]].update(name=base, N=draw(st.integers(2, 3)))
        links[perm[1]].update(name=f"{base}_1", N=1)
    okinds = draw(st.sampled_from([["ideal"], ORIG_SRC]))
    origins = [dict(id=f"O{k}", node=nodes[k], name=f"O{k}", kind=draw(st.sampled_from(okinds)), C=draw(pos(200, 5000))) for k in range(K)]
    dests = [dict(id="D0", node=nodes[K + 1], name="D0", kind=draw(st.sampled_from(["free", "cong"])))]
    nodes_ = [dict(id=n, name=n) for n in nodes]
    sp = dict(nodes=nodes_, links=links, origins=origins, dests=dests, pars=draw(model_pars()))
    sp["plan"] = draw(plans(nodes_, links, origins, dests))
    return sp


@st.composite
def specs(
    draw,
    max_ops=10,
    min_ops=0,
    integer_a="mixed",
    names="mixed",
    with_plan=True,
    max_segments=5,
    vsl_prob=4,
    origin_kinds=None,
    force_delta_phi=False,
    growth_log=None,
    long_links=True,
    big=0,
):
    nodes, edges, origin, dest = draw(topologies(max_ops=max_ops, min_ops=min_ops, log=growth_log))
    shared = draw(st.integers(0, 2)) == 0
    common = draw(link_params(integer_a)) if shared else None
    links = []
    for k, (u, v) in enumerate(edges):
        p = dict(common) if shared else draw(link_params(integer_a))
        if shared:
            p["lam"] = draw(st.integers(1, 5))
        N = draw(st.integers(1, max_segments))
        if long_links and draw(st.integers(0, 11)) == 0:
            N = draw(st.sampled_from([9, 11, 12]))  # two-digit segment indices, larger index sets
        vsl = alpha = None
        if draw(st.integers(0, vsl_prob - 1)) == 0:
            vsl = sorted(draw(st.sets(st.integers(0, N - 1), max_size=N)))
            if N >= 9 and draw(st.booleans()):
                k0 = draw(st.integers(0, N - 9))
                vsl = [k0, k0 + 8]  # a set whose iteration order is not ascending in CPython (hash collision)
            alpha = draw(fl(0, 0.5))
        links.append(
            dict(id=f"L{k}", name=f"L{k}", up=u, down=v, N=N, turnrate=draw(st.one_of(pos(0.05, 5), pos(0.05, 5), st.integers(1, 4))), vsl=vsl, alpha=alpha, **p)
        )
    if big and draw(st.integers(0, big - 1)) == 0:
        # absolute size: one link replaced by a chain of 14..25 short links (more than 16 elements of one kind)
        base = links[draw(st.integers(0, len(links) - 1))]
        end, prev = base["down"], base
        for _ in range(draw(st.integers(13, 24))):
            nn = f"n{len(nodes)}"
            nodes.append(nn)
            new = dict(base, id=f"L{len(links)}", name=f"L{len(links)}", up=nn, down=end, N=draw(st.integers(1, 2)), vsl=None, alpha=None)
            prev["down"] = nn
            links.append(new)
            prev = new
    mode = draw(st.integers(0, 9))
    if mode <= 2:
        # turn rates as a user would type them: fractions of one, or tiny unnormalised weights
        for n in nodes:
            outs = [l for l in links if l["up"] == n]
            tot = sum(float(l["turnrate"]) for l in outs)
            for l in outs:
                if mode <= 1 and len(outs) >= 2:
                    l["turnrate"] = max(round(float(l["turnrate"]) / tot, 6), 1e-6)  # sums to one only up to the rounding
                elif mode == 2:
                    l["turnrate"] = float(l["turnrate"]) * 1e-12
    origins = []
    for k, (n, r) in enumerate(origin.items()):
        kinds = ORIG_SRC if r == "src" else ORIG_RAMP
        if origin_kinds:
            kk = [x for x in kinds if x in origin_kinds]
            kinds = kk or kinds
        origins.append(dict(id=f"O{k}", node=n, name=f"O{k}", kind=draw(st.sampled_from(kinds)), C=draw(pos(200, 5000))))
    dests = [
        dict(id=f"D{k}", node=n, name=f"D{k}", kind=draw(st.sampled_from(["free", "cong"])))
        for k, n in enumerate(dest)
    ]
    nodes_ = [dict(id=n, name=n) for n in nodes]
    pars = draw(model_pars())
    if force_delta_phi:
        if pars["delta"] is None:
            pars["delta"] = draw(fl(0, 0.1))
        if pars["phi"] is None:
            pars["phi"] = draw(fl(0, 5))
    sp = dict(nodes=nodes_, links=links, origins=origins, dests=dests, pars=pars)
    if draw(st.integers(0, 2)) == 0:
        sp["name"] = draw(st.sampled_from(["A13 east-bound", "net.v2", "_scratch", "R\u00e9seau", "1st", "ring/1", "a__b", ""])) or None
    if draw(st.integers(0, 3)) == 0:
        # unrelated keyword parameters splatted into step()/to_function() (the repository's tests do the same:
        # one dictionary with L, lanes, C, rho_max, ... for everything); they must be ignored
        pool = {"rho_max": 180.0, "rho_crit": 33.5, "L": 1.0, "lanes": 2, "C": 2000.0, "a": 1.867, "v_free": 102.0, "alpha": 0.1, "N": 3}
        keys = draw(st.lists(st.sampled_from(sorted(pool)), min_size=1, max_size=4, unique=True))
        sp["extra_pars"] = {k: pool[k] for k in keys}
    if draw(st.integers(0, 5)) == 0:
        sp["array_params"] = True  # honoured by NumPy-only steps (spec.step_numpy)
    if draw(st.integers(0, 4)) == 0:
        # a rare conjunction made less rare: one-segment link fed by an interior ramp, lane change right after it,
        # merging and lane-drop parameters both given
        ramps = [o for o in origins if S.in_links(sp, o["node"])]
        if ramps:
            o = ramps[draw(st.integers(0, len(ramps) - 1))]
            l = S.out_links(sp, o["node"])[0]
            l["N"] = 1
            if l.get("vsl") is not None:
                l["vsl"] = [k for k in l["vsl"] if k == 0]
            outs = S.out_links(sp, l["down"])
            if len(outs) == 1 and outs[0]["lam"] == l["lam"]:
                outs[0]["lam"] = l["lam"] + draw(st.sampled_from([-1, 1])) if l["lam"] > 1 else 2
            if pars["delta"] is None:
                pars["delta"] = draw(fl(0, 0.1))
            if pars["phi"] is None:
                pars["phi"] = draw(fl(0, 5))
    if names == "mixed":
        names = draw(st.sampled_from(["id", "id", "id", "drawn", "drawn", "drawn", "clash"]))
    if names == "drawn":
        # distinct names, but not derived from the ids and not sorted like them
        pool = draw(st.permutations(range(len(nodes_) + len(links) + len(origins) + len(dests))))
        it = iter(pool)
        for grp, pre in ((nodes_, "N"), (links, "K"), (origins, "R"), (dests, "S")):
            for e in grp:
                e["name"] = f"{pre}{next(it)}"
    elif names == "clash":
        # few names for many elements; the second alphabet also collides with CasADi's per-entry names (rho_a_1)
        alphabet = draw(st.sampled_from([["a", "b", "c"], ["a", "b", "c"], ["a", "a_1", "a_0"]]))
        for grp in (nodes_, links, origins, dests):
            for e in grp:
                e["name"] = draw(st.sampled_from(alphabet))
    sp["plan"] = draw(plans(nodes_, links, origins, dests)) if with_plan else []
    return sp


@st.composite
def states(draw, spec, zero_bias=False, negative=False, finite_only=False, allow_singular=False):
    """Admissible state/control/disturbance values; the model's own 0/0 excluded by construction."""

    def val(lo, hi, specials=()):
        if finite_only:
            specials = tuple(s for s in specials if math.isfinite(s))
        if zero_bias and draw(st.integers(0, 2)) == 0:
            return 0.0
        x = draw(fl(lo, hi, specials))
        if negative and draw(st.integers(0, 4)) < 2:
            x = -draw(fl(0, hi if math.isfinite(hi) else 1.0))
        return x

    stt = {}
    for l in spec["links"]:
        s = dict(
            rho=[val(0, l["rho_max"], (l["rho_crit"], l["rho_max"])) for _ in range(l["N"])],
            v=[val(0, 1.5 * l["v_free"], (l["v_free"],)) for _ in range(l["N"])],
        )
        if l.get("vsl") is not None:
            s["v_ctrl"] = [draw(fl(0, 200, () if finite_only else (math.inf,))) for _ in l["vsl"]]
        stt[l["id"]] = s
    for o in spec["origins"]:
        k = o["kind"]
        if k == "ideal":
            continue
        def ctl(lo, hi, specials=()):
            x = draw(fl(lo, hi, specials))
            if negative and draw(st.integers(0, 2)) == 0:
                x = -draw(pos(1e-3 * hi, hi))  # strictly negative: inadmissible controls / disturbances too ("all inputs")
            return x

        s = dict(w=[val(0, 500)], d=[ctl(0, 8000)])
        if k == "main":
            s["v_ctrl"] = [ctl(0, 200, () if finite_only else (math.inf,))]
        elif k.startswith("ramp"):
            s["r"] = [ctl(0, 1, (1,))]
        else:
            s["q"] = [ctl(0, 6000, (math.inf,) if (k == "simp_lim" and not finite_only) else ())]
        stt[o["id"]] = s
    for d in spec["dests"]:
        if d["kind"] == "cong":
            dn = S.in_links(spec, d["node"])
            hi = dn[0]["rho_max"] if dn else 300.0
            stt[d["id"]] = dict(d=[draw(fl(0, hi))])
    if not negative and not allow_singular:
        fix_singular(draw, spec, stt)
    return stt


def fix_singular(draw, spec, stt):
    """Exclude the model's own 0/0 by construction: give one entering link of every merge a
    positive last-segment flow and one leaving link of every bifurcation a positive first density."""
    for n in spec["nodes"]:
        ins = S.in_links(spec, n["id"])
        if len(ins) >= 2:
            tot = sum(stt[l["id"]]["rho"][-1] * stt[l["id"]]["v"][-1] * l["lam"] for l in ins)
            if not tot > 0:
                l = ins[draw(st.integers(0, len(ins) - 1))]
                if not stt[l["id"]]["rho"][-1] > 0:
                    stt[l["id"]]["rho"][-1] = draw(pos(1e-3 * l["rho_max"], l["rho_max"]))
                if not stt[l["id"]]["v"][-1] > 0:
                    stt[l["id"]]["v"][-1] = draw(pos(1e-3 * l["v_free"], 1.5 * l["v_free"]))
    for n in spec["nodes"]:
        outs = S.out_links(spec, n["id"])
        if len(outs) >= 2:
            tot = sum(stt[l["id"]]["rho"][0] for l in outs)
            if not tot > 0:
                l = outs[draw(st.integers(0, len(outs) - 1))]
                stt[l["id"]]["rho"][0] = draw(pos(1e-3 * l["rho_max"], l["rho_max"]))
    # a first-density fix can touch a last segment of a single-segment link only upwards, so the
    # merge fix above stays valid; re-check for safety (harness assertion, not a filter)
    assert not S.singular(spec, stt)


@st.composite
def distinct_states(draw, spec):
    """Moderate, pairwise distinct values for every entry (per element and per segment), so that a
    permutation of elements or segments cannot hide behind equal numbers."""
    entries = []
    for l in spec["links"]:
        entries += [(l["id"], "rho", k, 0.05 * l["rho_crit"], 1.5 * l["rho_crit"]) for k in range(l["N"])]
        entries += [(l["id"], "v", k, 0.2 * l["v_free"], 1.1 * l["v_free"]) for k in range(l["N"])]
        if l.get("vsl") is not None:
            entries += [(l["id"], "v_ctrl", k, 20.0, 140.0) for k in range(len(l["vsl"]))]
    for o in spec["origins"]:
        k = o["kind"]
        if k == "ideal":
            continue
        entries += [(o["id"], "w", 0, 1.0, 200.0), (o["id"], "d", 0, 100.0, 3000.0)]
        if k == "main":
            entries.append((o["id"], "v_ctrl", 0, 20.0, 140.0))
        elif k.startswith("ramp"):
            entries.append((o["id"], "r", 0, 0.05, 1.0))
        else:
            entries.append((o["id"], "q", 0, 100.0, 2500.0))
    for d in spec["dests"]:
        if d["kind"] == "cong":
            entries.append((d["id"], "d", 0, 5.0, 80.0))
    n = len(entries)
    perm = list(draw(st.permutations(range(n))))
    jitter = draw(st.floats(0.0, 0.999))
    stt = {}
    for j, (i, var, k, lo, hi) in enumerate(entries):
        val = lo + (hi - lo) * (0.02 + 0.96 * (perm[j] + jitter) / n)
        stt.setdefault(i, {}).setdefault(var, []).append(val)
    for l in spec["links"]:
        if l.get("vsl") is not None and not l["vsl"]:
            stt[l["id"]]["v_ctrl"] = []
    return stt
