"""Dict-based model of the construction API, the nine-condition validity predicate, and an
interpreter that applies JSON operation lists to a real Network and to the model in lock-step.

Universe (plain data):
  {"nodes": [name, ...], "links": [name, ...], "origins": [[kind, name], ...], "dests": [[kind, name], ...]}
Tokens: "n<i>", "l<i>", "o<i>", "d<i>" index into the universe; foreign tokens for malformed paths:
  "$none", "$str", "$int", "$net", "$float"
Operations:
  ["add_node", n] ["add_nodes", [n..]] ["add_link", u, l, v] ["add_links", [[u,l,v]..]]
  ["add_origin", o, n] ["add_destination", d, n] ["add_path", [tokens..], o|None, d|None]
  ["is_valid"] ["read", [lookup names]]
"""
from lib import sut

ORIGIN_KINDS = ("ideal", "main", "ramp", "simp")
RAMPS = ("ramp", "simp")


class Model:
    """Plain-data graph: insertion-ordered nodes, edges (u, v) -> link token, attachments."""

    def __init__(self):
        self.nodes = []
        self.edges = {}
        self.origin = {}
        self.dest = {}

    def add_node(self, n):
        if n not in self.nodes:
            self.nodes.append(n)

    def add_link(self, u, l, v):
        self.add_node(u)
        self.add_node(v)
        self.edges[(u, v)] = l

    def add_origin(self, o, n):
        self.add_node(n)
        self.origin[n] = o

    def add_destination(self, d, n):
        self.add_node(n)
        self.dest[n] = d

    def add_path(self, path, o, d):
        self.add_node(path[0])
        if o is not None:
            self.add_origin(o, path[0])
        for k in range(1, len(path) - 1, 2):
            self.add_node(path[k + 1])
            self.add_link(path[k - 1], path[k], path[k + 1])
        if d is not None:
            self.add_destination(d, path[-1])

    # ---- the nine documented conditions
    def violated(self, origin_kind):
        """origin_kind: token -> kind.  Returns the set of violated condition numbers."""
        bad = set()
        count = {}
        for l in self.edges.values():
            count[l] = count.get(l, 0) + 1
        for o in self.origin.values():
            count[o] = count.get(o, 0) + 1
        for d in self.dest.values():
            count[d] = count.get(d, 0) + 1
        if any(c > 1 for c in count.values()):
            bad.add(1)
        for n in self.nodes:
            n_in = sum(1 for (u, v) in self.edges if v == n)
            n_out = sum(1 for (u, v) in self.edges if u == n)
            has_o, has_d = n in self.origin, n in self.dest
            if has_o and has_d:
                bad.add(2)
            if n_in == 0 and n_out == 0:
                bad.add(3)
            if n_in == 0 and not has_o:
                bad.add(4)
            if n_out == 0 and not has_d:
                bad.add(5)
            if has_o and origin_kind(self.origin[n]) not in RAMPS and n_in > 0:
                bad.add(6)
            if has_o and n_out > 1:
                bad.add(7)
            if has_d and n_in > 1:
                bad.add(8)
            if has_d and n_out > 0:
                bad.add(9)
        return bad

    def copy(self):
        m = Model()
        m.nodes = list(self.nodes)
        m.edges = dict(self.edges)
        m.origin = dict(self.origin)
        m.dest = dict(self.dest)
        return m

    def snapshot(self):
        return (tuple(self.nodes), tuple(sorted(self.edges.items())), tuple(sorted(self.origin.items())), tuple(sorted(self.dest.items())))


class Foreign:
    """An arbitrary object that is neither a Node nor a Link."""


def well_formed(path):
    if len(path) < 3 or len(path) % 2 == 0:
        return False
    for k, t in enumerate(path):
        if k % 2 == 0 and not t.startswith("n"):
            return False
        if k % 2 == 1 and not t.startswith("l"):
            return False
    return True


class Sim:
    """Real network + model in lock-step."""

    def __init__(self, universe):
        self.u = universe
        self.objs = {}
        for i, nm in enumerate(universe["nodes"]):
            self.objs[f"n{i}"] = sut.Node(name=nm)
        for i, nm in enumerate(universe["links"]):
            self.objs[f"l{i}"] = sut.Link(1, 1, 1.0, 180.0, 30.0, 100.0, 1.8, name=nm)
        self.okind = {}
        for i, (kind, nm) in enumerate(universe["origins"]):
            self.okind[f"o{i}"] = kind
            self.objs[f"o{i}"] = {
                "ideal": lambda: sut.Origin(name=nm),
                "main": lambda: sut.MainstreamOrigin(name=nm),
                "ramp": lambda: sut.MeteredOnRamp(1000.0, name=nm),
                "simp": lambda: sut.SimplifiedMeteredOnRamp(1000.0, name=nm),
            }[kind]()
        for i, (kind, nm) in enumerate(universe["dests"]):
            self.objs[f"d{i}"] = sut.Destination(name=nm) if kind == "free" else sut.CongestedDestination(name=nm)
        self.tok = {id(o): t for t, o in self.objs.items()}
        # the network is a Network or an (empty) user subclass of it
        cls = type("Highway", (sut.Network,), {}) if universe.get("net_class") == "subclass" else sut.Network
        self.net = cls("net")
        self.model = Model()

    def obj(self, t):
        if t is None:
            return None
        if t.startswith("$"):
            return {"$none": None, "$str": "node", "$int": 3, "$float": 1.5, "$net": self.net}.get(t, Foreign())
        return self.objs[t]

    def apply(self, op):
        """Applies a mutating op to the real network and (if well-formed) the model.
        Returns ("ok", None) | ("raised", exception)."""
        k = op[0]
        if k != "add_path" and _has_invalid(op):
            # a call with an invalid argument (None as node, truncated triple): it may raise after having
            # changed the graph; no claim about the outcome, the caller re-synchronises the model
            try:
                self._apply_invalid(op)
            except Exception as e:
                return ("raised", e)
            return ("invalid-accepted", None)
        # bulk arguments in other Iterable forms (the API takes Iterables): one-shot generator, the keys of a dict,
        # the node view of another network
        form = op[-1] if isinstance(op[-1], str) and op[-1] in ("$gen", "$keys", "$view") else None
        if form == "$gen":
            it = lambda xs: (x for x in xs)  # noqa: E731
        elif form == "$keys":
            it = lambda xs: dict.fromkeys(xs)  # noqa: E731
        elif form == "$view" and k == "add_nodes":
            def it(xs):
                other = sut.Network("other")
                other.add_nodes(list(xs))
                return other.nodes
        else:
            it = lambda xs: xs  # noqa: E731
        if k == "add_node":
            self.net.add_node(self.obj(op[1]))
            self.model.add_node(op[1])
        elif k == "add_nodes":
            self.net.add_nodes(it([self.obj(t) for t in op[1]]))
            for t in op[1]:
                self.model.add_node(t)
        elif k == "add_link":
            self.net.add_link(self.obj(op[1]), self.obj(op[2]), self.obj(op[3]))
            self.model.add_link(op[1], op[2], op[3])
        elif k == "add_links":
            self.net.add_links(it([(self.obj(a), self.obj(b), self.obj(c)) for a, b, c in op[1]]))
            triples = [tuple(tr) for tr in op[1]]
            if form == "$keys":
                triples = list(dict.fromkeys(triples))  # a dict holds each key once, at its first position
            for a, b, c in triples:
                self.model.add_link(a, b, c)
        elif k == "add_origin":
            self.net.add_origin(self.obj(op[1]), self.obj(op[2]))
            self.model.add_origin(op[1], op[2])
        elif k == "add_destination":
            self.net.add_destination(self.obj(op[1]), self.obj(op[2]))
            self.model.add_destination(op[1], op[2])
        elif k == "add_path":
            path = it([self.obj(t) for t in op[1]])
            try:
                if op[2] is None and op[3] is None:
                    self.net.add_path(path)
                else:
                    self.net.add_path(path, origin=self.obj(op[2]), destination=self.obj(op[3]))
            except Exception as e:  # judged by the caller
                return ("raised", e)
            if well_formed(op[1]):
                self.model.add_path(op[1], op[2], op[3])
        else:
            raise ValueError(op)
        return ("ok", None)

    def _apply_invalid(self, op):
        k = op[0]
        if k == "add_nodes":
            self.net.add_nodes([self.obj(t) for t in op[1]])
        elif k == "add_link":
            self.net.add_link(self.obj(op[1]), self.obj(op[2]), self.obj(op[3]))
        elif k == "add_links":
            self.net.add_links([tuple(self.obj(t) for t in tr) for tr in op[1]])
        else:
            raise ValueError(op)

    # ---- observation of the real graph as plain data
    def graph_snapshot(self):
        """Returns (nodes, edges, origin, dest, problems) from net.graph, in tokens."""
        g = self.net.graph
        problems = []
        nodes = []
        for n in g.nodes:
            t = self.tok.get(id(n))
            if not isinstance(n, sut.Node):
                problems.append(f"graph node {n!r} is not a Node")
            nodes.append(t if t is not None else f"?{type(n).__name__}")
        edges, origin, dest = {}, {}, {}
        for u, v, data in g.edges(data=True):
            l = data.get("link")
            if not isinstance(l, sut.Link):
                problems.append(f"edge ({u!r},{v!r}) carries {l!r}, not a Link")
            edges[(self.tok.get(id(u), "?"), self.tok.get(id(v), "?"))] = self.tok.get(id(l), "?")
        for n, data in g.nodes(data=True):
            t = self.tok.get(id(n), "?")
            if "origin" in data:
                origin[t] = self.tok.get(id(data["origin"]), "?")
            if "destination" in data:
                dest[t] = self.tok.get(id(data["destination"]), "?")
        return nodes, edges, origin, dest, problems

    def resync_model(self):
        nodes, edges, origin, dest, _ = self.graph_snapshot()
        m = Model()
        m.nodes, m.edges, m.origin, m.dest = list(nodes), dict(edges), dict(origin), dict(dest)
        self.model = m




def _has_invalid(op):
    def bad(t):
        return isinstance(t, str) and t == "$none"

    if op[0] == "add_nodes":
        return any(bad(t) for t in op[1])
    if op[0] == "add_link":
        return bad(op[1]) or bad(op[3])
    if op[0] == "add_links":
        return any(len(tr) != 3 or bad(tr[0]) or bad(tr[2]) for tr in op[1])
    return False
