"""Seeding, sharding, counters, evidence/replay writers, known-findings matching, exit codes."""
import hashlib
import importlib
import json
import math
import multiprocessing as mp
import os
import sys
import time
import traceback

ROOT = os.path.dirname(os.path.dirname(os.path.abspath(__file__)))
KNOWN_FILE = os.path.join(ROOT, "KNOWN_FINDINGS.txt")
MAX_RESTARTS = 5


# ------------------------------------------------------------------ JSON with inf/nan
def enc(o):
    if isinstance(o, float):
        if math.isnan(o):
            return {"$f": "nan"}
        if math.isinf(o):
            return {"$f": "inf" if o > 0 else "-inf"}
        return o
    if isinstance(o, dict):
        return {str(k): enc(v) for k, v in o.items()}
    if isinstance(o, (list, tuple)):
        return [enc(v) for v in o]
    if isinstance(o, (set, frozenset)):
        return sorted(enc(v) for v in o)
    if isinstance(o, (str, int, bool)) or o is None:
        return o
    try:
        return enc(float(o))
    except Exception:
        return repr(o)


def dec(o):
    if isinstance(o, dict):
        if set(o) == {"$f"}:
            return float(o["$f"])
        return {k: dec(v) for k, v in o.items()}
    if isinstance(o, list):
        return [dec(v) for v in o]
    return o


def canon(case):
    return json.dumps(enc(case), sort_keys=True, separators=(",", ":"))


def sha(case):
    return hashlib.sha1(canon(case).encode()).hexdigest()


# ------------------------------------------------------------------ violations / context
class Violation(Exception):
    def __init__(self, signature, message):
        super().__init__(f"{signature}: {message}")
        self.signature = signature
        self.message = message


class HarnessError(Exception):
    pass


class Ctx:
    """Per-case context handed to check_case."""

    def __init__(self, excluded=()):
        self.excluded = set(excluded)
        self.labels = set()
        self.nontrivial = False
        self.n_excluded = 0
        self.counters = {}
        self.unique = False  # set for enumerated cases: distinct by construction, no hashing needed

    def fail(self, signature, message):
        if signature in self.excluded:
            self.n_excluded += 1
            return
        raise Violation(signature, message)

    def label(self, *labels):
        self.labels.update(labels)

    def count(self, name, k=1):
        self.counters[name] = self.counters.get(name, 0) + k


def sut_frame(exc):
    """Innermost traceback frame that lies in the code under test, as 'file:function'."""
    from lib import sut

    found = None
    tb = exc.__traceback__
    while tb is not None:
        fn = os.path.abspath(tb.tb_frame.f_code.co_filename)
        if fn.startswith(sut.SRC + os.sep):
            found = f"{os.path.relpath(fn, sut.SRC)}:{tb.tb_frame.f_code.co_name}"
        tb = tb.tb_next
    return found


def guarded(ctx, what, fn, *a, allowed=(), **kw):
    """Runs a call into the code under test.  An exception whose traceback passes through the code
    under test is a property violation ('crash' bucket keyed by type and innermost SUT frame),
    unless its type is in `allowed` (then it is returned).  Exceptions that never touch the SUT are
    harness bugs and propagate."""
    try:
        return fn(*a, **kw)
    except Violation:
        raise
    except allowed as e:  # type: ignore[misc]
        return e
    except Exception as e:
        fr = sut_frame(e)
        if type(e).__name__ == "LayoutMismatch":
            fr = "layout"
        if fr is None and not _from_backend(e):
            raise
        sig = f"crash:{what}:{type(e).__name__}:{fr}"
        if sig in ctx.excluded:
            ctx.n_excluded += 1
            return _Crashed(e)
        raise Violation(sig, f"{type(e).__name__}: {str(e)[:300]}") from e


def _from_backend(e):
    # exceptions raised inside casadi/numpy while executing a compiled function built by the SUT
    tb = traceback.extract_tb(e.__traceback__)
    return any("casadi" in f.filename or "numpy" in f.filename for f in tb)


class _Crashed:
    def __init__(self, e):
        self.exc = e


def crashed(x):
    return isinstance(x, _Crashed)


# ------------------------------------------------------------------ known findings
def load_known(prop_id):
    """Returns (open: {signature: text}, fixed: [text])."""
    open_, fixed = {}, []
    if os.path.exists(KNOWN_FILE):
        for line in open(KNOWN_FILE):
            line = line.strip()
            if not line or line.startswith("#"):
                continue
            if line.startswith("open:"):
                parts = dict(p.split("=", 1) for p in line.split()[1:3] if "=" in p)
                if parts.get("property") == prop_id and "signature" in parts:
                    rest = line.split(None, 3)
                    open_[parts["signature"]] = rest[3] if len(rest) > 3 else ""
            elif line.startswith("fixed:"):
                if f"property={prop_id} " in line:
                    fixed.append(line)
    return open_, fixed


# ------------------------------------------------------------------ stats
class Stats:
    def __init__(self):
        self.evaluations = 0
        self.nontrivial_hashes = set()
        self.labels = {}
        self.counters = {}
        self.excluded = 0
        self.first = []
        self.last = []
        self.unique_nontrivial = 0

    def record(self, case, ctx):
        self.evaluations += 1
        for l in ctx.labels:
            self.labels[l] = self.labels.get(l, 0) + 1
        for k, v in ctx.counters.items():
            self.counters[k] = self.counters.get(k, 0) + v
        self.excluded += ctx.n_excluded
        if ctx.nontrivial and ctx.unique:
            self.unique_nontrivial += 1
            if len(self.first) < 2:
                self.first.append(case)
            elif self.unique_nontrivial % 1000 == 0:
                self.last = [case]
        elif ctx.nontrivial:
            h = sha(case)
            if h not in self.nontrivial_hashes:
                self.nontrivial_hashes.add(h)
                if len(self.first) < 2:
                    self.first.append(case)
                else:
                    self.last = (self.last + [case])[-1:]

    def merge(self, other):
        self.evaluations += other.evaluations
        self.nontrivial_hashes |= other.nontrivial_hashes
        for l, c in other.labels.items():
            self.labels[l] = self.labels.get(l, 0) + c
        for l, c in other.counters.items():
            self.counters[l] = self.counters.get(l, 0) + c
        self.excluded += other.excluded
        self.unique_nontrivial += other.unique_nontrivial
        if hasattr(other, "first_harness_exception") and not hasattr(self, "first_harness_exception"):
            self.first_harness_exception = other.first_harness_exception
        if len(self.first) < 2:
            self.first = (self.first + other.first)[:2]
        if other.last:
            self.last = other.last


def note_harness_exception(stats, ctx, e):
    ctx.count("harness_exceptions")
    if not hasattr(stats, "first_harness_exception"):
        stats.first_harness_exception = f"{type(e).__name__}: {e}\n" + "".join(traceback.format_exception(type(e), e, e.__traceback__)[-6:])


# ------------------------------------------------------------------ shard runners
def _hypothesis_shard(mod, tier, seed, shard, n, excluded, shrink):
    import hypothesis
    from hypothesis import HealthCheck, Phase, given, settings

    stats = Stats()
    found = []
    excluded = set(excluded)
    strategy = mod.strategy(tier)
    for _restart in range(MAX_RESTARTS + 1):
        last = {}

        def body(case):
            ctx = Ctx(excluded)
            last["case"] = case
            try:
                mod.check_case(case, ctx)
            except Violation:
                raise
            except Exception as e:  # a bug of the harness on this case: inconclusive, counted, never a verdict
                note_harness_exception(stats, ctx, e)
            finally:
                stats.record(case, ctx)

        phases = [Phase.generate] + ([Phase.shrink] if shrink else [])
        test = hypothesis.seed(seed * 1000 + shard + 7919 * _restart)(
            settings(
                max_examples=n,
                deadline=None,
                database=None,
                derandomize=False,
                report_multiple_bugs=False,
                suppress_health_check=list(HealthCheck),
                phases=phases,
                verbosity=hypothesis.Verbosity.quiet,
            )(given(strategy)(body))
        )
        try:
            test()
            break
        except Violation as v:
            found.append((v.signature, v.message, last.get("case")))
            excluded.add(v.signature)
        except hypothesis.errors.HypothesisException as e:
            raise HarnessError(f"hypothesis: {type(e).__name__}: {e}") from e
    return stats, found


def _enumerated_shard(mod, tier, seed, shard, nshards, excluded):
    stats = Stats()
    found = []
    excluded = set(excluded)
    for case in mod.enumerate_cases(tier, seed, shard, nshards):
        ctx = Ctx(excluded)
        ctx.unique = True
        try:
            mod.check_case(case, ctx)
        except Violation as v:
            found.append((v.signature, v.message, case))
            excluded.add(v.signature)
        except Exception as e:
            note_harness_exception(stats, ctx, e)
        stats.record(case, ctx)
    return stats, found


def _worker(args):
    prop, tier, seed, shard, nshards, n, excluded, shrink, kind = args
    os.environ["PYTHONHASHSEED"] = "0"
    try:
        mod = importlib.import_module(f"props.{prop.lower()}")
        if kind == "enum":
            stats, found = _enumerated_shard(mod, tier, seed, shard, nshards, excluded)
        else:
            stats, found = _hypothesis_shard(mod, tier, seed, shard, n, excluded, shrink)
        return ("ok", stats, found)
    except BaseException as e:  # harness error
        return ("error", f"{type(e).__name__}: {e}\n{traceback.format_exc()}", [])


# ------------------------------------------------------------------ main driver
def run_property(prop, tier, seed, workers=None, examples=None, shrink=None):
    t0 = time.time()
    sys.path.insert(0, ROOT)
    mod = importlib.import_module(f"props.{prop.lower()}")
    budget = mod.BUDGET[tier]
    nshards = budget.get("shards", 1)
    n = examples if examples is not None else budget["examples"]
    if workers is None:
        workers = min(nshards, int(os.environ.get("VERIF_WORKERS", "16")))
    if shrink is None:
        shrink = True
    open_known, _fixed = load_known(prop)
    excluded = set(open_known)
    jobs = []
    if n > 0:
        jobs += [(prop, tier, seed, k, nshards, n, excluded, shrink, "hyp") for k in range(nshards)]
    if hasattr(mod, "enumerate_cases") and budget.get("enumerate", True):
        eshards = budget.get("enum_shards", nshards)
        jobs += [(prop, tier, seed, k, eshards, 0, excluded, shrink, "enum") for k in range(eshards)]
    opt = None
    if n > 0 and budget.get("opt_shard", True) and os.environ.get("VERIF_OPT_SHARD", "1") != "0":
        opt = _start_opt_child(prop, tier, seed, nshards, max(20, n // budget.get("opt_divisor", 2)), excluded, shrink)
    if workers <= 1 or len(jobs) == 1:
        results = [_worker(j) for j in jobs]
    else:
        with mp.get_context("fork").Pool(min(workers, len(jobs))) as pool:
            results = pool.map(_worker, jobs, chunksize=1)
    total = Stats()
    found = []
    errors = []
    # seconds-long replay tier: committed regression cases (shrunk failures of defects that were repaired)
    import glob

    for path in sorted(glob.glob(os.path.join(ROOT, "replays", prop, "regression_*.json"))):
        data = json.load(open(path))
        case = dec(data["case"]) if "case" in data else dec(data)
        ctx = Ctx(excluded)
        try:
            mod.check_case(case, ctx)
        except Violation as v:
            found.append((v.signature, v.message, case))
        except Exception as e:
            note_harness_exception(total, ctx, e)
        ctx.label("regression-replay")
        total.record(case, ctx)
    for status, payload, f in results:
        if status == "error":
            errors.append(payload)
        else:
            total.merge(payload)
            found.extend(f)
    opt_sigs = set()
    if opt is not None:
        status, payload, f = _collect_opt_child(opt)
        if status == "error":
            # the extra shard is an addition to the registered budget: its loss is reported, not turned into a verdict
            print("WARNING python -O shard failed: " + payload[:300], file=sys.stderr)
            total.counters["python_O_shard_failed"] = 1
        else:
            total.counters["cases_under_python_O"] = payload.evaluations
            total.merge(payload)
            for sig, msg, case in f:
                if sig not in {s for s, _, _ in found}:
                    opt_sigs.add(sig)
                found.append((sig, msg, case))
    fuzz_info = None
    if budget.get("fuzz_runs") and examples is None and not errors:
        fuzz_info = run_fuzz(prop, tier, seed, budget["fuzz_runs"], budget.get("fuzz_children", workers), excluded | {s for s, _, _ in found}, total, found)
    # one replay per signature (smallest case)
    by_sig = {}
    for sig, msg, case in found:
        size = len(canon(case)) if case is not None else 1 << 60
        if sig not in by_sig or size < by_sig[sig][2]:
            by_sig[sig] = (msg, case, size)
    wall = time.time() - t0
    lines = []
    for sig, text in sorted(open_known.items()):
        lines.append(f"KNOWN-FINDING: property={prop} signature={sig} {text}")
    replays = []
    for sig, (msg, case, _size) in sorted(by_sig.items()):
        path = write_replay(prop, sig, msg, case, python_O=sig in opt_sigs)
        replays.append(path)
        lines.append(f"VIOLATION property={prop} replay={path}")
        lines.append(f"  signature={sig}")
        lines.append(f"  {msg[:600]}")
    n_nontrivial = len(total.nontrivial_hashes) + total.unique_nontrivial
    write_evidence(mod, prop, tier, seed, total, n_nontrivial, wall, len(by_sig), nshards, errors, fuzz_info)
    for l in lines:
        print(l)
    summary = (
        f"{prop} tier={tier} seed={seed} evaluations={total.evaluations} "
        f"distinct_nontrivial={n_nontrivial} excluded={total.excluded} violations={len(by_sig)} wall={wall:.1f}s"
    )
    print(summary)
    n_hexc = total.counters.get("harness_exceptions", 0)
    if n_hexc:
        print(f"WARNING {n_hexc} of {total.evaluations} cases were inconclusive because the harness raised; first:\n"
              f"{getattr(total, 'first_harness_exception', '')}", file=sys.stderr)
        if n_hexc > 0.05 * max(1, total.evaluations) and not by_sig:
            errors.append(f"{n_hexc} harness exceptions in {total.evaluations} cases")
    if errors:
        print("HARNESS-ERROR", errors[0], file=sys.stderr)
        return 2 if not by_sig else 1
    if by_sig:
        return 1
    min_eval = max(1, (n * nshards) // 2) if n > 0 else 1
    if total.evaluations < min_eval or n_nontrivial < 2:
        print(
            f"HARNESS-ERROR generator floor not met: evaluations={total.evaluations} (<{min_eval}) "
            f"or distinct_nontrivial={n_nontrivial} (<2)",
            file=sys.stderr,
        )
        return 2
    return 0


def write_replay(prop, sig, msg, case, python_O=False):
    d = os.path.join(ROOT, "replays", prop)
    os.makedirs(d, exist_ok=True)
    h = hashlib.sha1((sig + canon(case)).encode()).hexdigest()[:16]
    path = os.path.join(d, f"{h}.json")
    rec = {"property": prop, "signature": sig, "message": msg, "case": enc(case)}
    if python_O:
        rec["python_O"] = True  # seen only by the shard run under `python -O`; the replay re-executes itself with -O
    with open(path, "w") as f:
        json.dump(rec, f, indent=1, sort_keys=True)
    return os.path.relpath(path, ROOT)


def _start_opt_child(prop, tier, seed, nshards, n, excluded, shrink):
    import subprocess
    import tempfile

    tmp = tempfile.mkdtemp(prefix="optshard.")
    out = os.path.join(tmp, "out.pkl")
    cmd = [sys.executable, "-O", os.path.join(ROOT, "lib", "opt_child.py"), prop, tier, str(seed), str(nshards), str(nshards + 1),
           str(n), "1" if shrink else "0", out] + sorted(excluded)
    env = dict(os.environ, PYTHONHASHSEED="0")
    env.pop("PYTHONOPTIMIZE", None)
    p = subprocess.Popen(cmd, cwd=ROOT, stdout=subprocess.DEVNULL, stderr=subprocess.PIPE, env=env)
    return tmp, out, p


def _collect_opt_child(opt):
    import pickle
    import shutil

    tmp, out, p = opt
    try:
        _o, err = p.communicate()
        if not os.path.exists(out):
            return ("error", f"no result (rc={p.returncode}): {err.decode(errors='replace')[-400:]}", [])
        with open(out, "rb") as f:
            return pickle.load(f)
    finally:
        shutil.rmtree(tmp, ignore_errors=True)


def run_fuzz(prop, tier, seed, runs, children, excluded, total, found):
    """Coverage-guided campaign (atheris/libFuzzer driving Hypothesis' byte decoder) with the same
    oracle; merged into the same statistics.  Skipped (and reported as skipped) if atheris is missing."""
    import shutil
    import subprocess
    import tempfile

    if not os.path.isdir(os.path.join(ROOT, ".deps", "atheris")):
        return {"skipped": "atheris not installed under .deps (run setup.sh)"}
    tmp = tempfile.mkdtemp(prefix="fuzz.")
    info = {"children": children, "runs_per_child": runs, "evaluations": 0, "violation_signatures": []}
    try:
        procs = []
        for k in range(children):
            out = os.path.join(tmp, f"out{k}.json")
            cmd = [sys.executable, os.path.join(ROOT, "lib", "fuzz_child.py"), prop, tier, str(seed * 100 + k + 1), str(runs), out,
                   os.path.join(tmp, f"corpus{k}")] + sorted(excluded)
            procs.append((out, subprocess.Popen(cmd, cwd=ROOT, stdout=subprocess.DEVNULL, stderr=subprocess.DEVNULL,
                                                env=dict(os.environ, PYTHONHASHSEED="0"))))
        for out, p in procs:
            p.wait()
            if not os.path.exists(out):
                info.setdefault("child_errors", 0)
                info["child_errors"] += 1
                continue
            d = json.load(open(out))
            st = Stats()
            st.evaluations = d["evaluations"]
            st.nontrivial_hashes = set(d["nontrivial_hashes"])
            st.labels, st.counters, st.excluded = d["labels"], d["counters"], d["excluded"]
            samples = [dec(c) for c in d["samples"]]
            st.first, st.last = samples[:2], samples[2:]
            total.merge(st)
            info["evaluations"] += d["evaluations"]
            for sig, msg, case in d["found"]:
                found.append((sig, msg, dec(case)))
                info["violation_signatures"].append(sig)
    finally:
        shutil.rmtree(tmp, ignore_errors=True)
    info["violation_signatures"] = sorted(set(info["violation_signatures"]))
    return info


def write_evidence(mod, prop, tier, seed, total, n_nontrivial, wall, nviol, nshards, errors, fuzz_info=None):
    os.makedirs(os.path.join(ROOT, "evidence"), exist_ok=True)
    samples = [enc(c) for c in (total.first + total.last)]
    cov = {
        "evaluations": total.evaluations,
        "distinct_nontrivial": n_nontrivial,
        "rule": mod.RULE + (" One additional shard of half a shard's budget runs the same strategy and oracle in a `python -O` child "
                            "(assert statements of the code under test stripped)." if total.counters.get("cases_under_python_O") else ""),
        "samples": samples,
        "labels": dict(sorted(total.labels.items())),
        "counters": dict(sorted(total.counters.items())),
        "excluded": total.excluded,
        "shards": nshards,
    }
    if fuzz_info is not None:
        cov["coverage_guided_fuzzing"] = fuzz_info
    req = getattr(mod, "EXPECTED_LABELS", ())
    cov["missing_expected_labels"] = [l for l in req if total.labels.get(l, 0) == 0]
    if getattr(mod, "EXHAUSTIVE", {}).get(tier):
        cov["exhaustive"] = True
        cov["exhaustive_scope"] = mod.EXHAUSTIVE[tier]
    ev = {
        "property_id": prop,
        "tier": tier,
        "seed": seed,
        "level": "exploration",
        "coverage": cov,
        "assumptions": list(getattr(mod, "ASSUMPTIONS", [])),
        "wall_s": round(wall, 2),
        "violations": nviol,
    }
    if errors:
        ev["harness_errors"] = [e[:500] for e in errors]
    with open(os.path.join(ROOT, "evidence", f"{prop}.json"), "w") as f:
        json.dump(ev, f, indent=1)


def replay(prop, path):
    sys.path.insert(0, ROOT)
    mod = importlib.import_module(f"props.{prop.lower()}")
    data = json.load(open(path))
    if isinstance(data, dict) and data.get("python_O") and not sys.flags.optimize:
        os.execv(sys.executable, [sys.executable, "-O", os.path.join(ROOT, "run.py")] + sys.argv[1:])
    case = dec(data["case"]) if "case" in data else dec(data)
    open_known, _ = load_known(prop)
    ctx = Ctx(open_known)
    try:
        mod.check_case(case, ctx)
    except Violation as v:
        print(f"VIOLATION property={prop} replay={path}")
        print(f"  signature={v.signature}")
        print(f"  {v.message[:600]}")
        return 1
    print(f"OK property={prop} replay={path} labels={sorted(ctx.labels)}")
    return 0
