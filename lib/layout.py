"""Expected argument/result layout of Engine.to_function at each compactness level.

Derived from the spec and the network's own element enumeration order (list(net.elements), which
C04 takes as given), NOT from the code that assembles the function:

 level <=0: one argument per (element, variable) named <var>_<element name>; states, then actions,
            then disturbances; results <var>_<element name>+ in state order
 level  1 : one argument per variable name, in order of first appearance within each group
 level >=2: x, u, d  /  x+
 parameters trailing: declared order (level 0) or one stacked "p"
 more_out : q_<link>, q_o_<origin>  /  q, q_o  /  single q
"""
from lib.sut import cs, np



class LayoutMismatch(Exception):
    """The compiled function's outputs do not have the shape the layout model predicts."""


def element_order(net, els):
    by_obj = {id(o): i for i, o in els.items()}
    return [by_obj[id(e)] for e in net.elements]


class Layout:
    def __init__(self, spec, order):
        self.spec = spec
        self.order = order
        self.meta = {}
        for l in spec["links"]:
            acts = [("v_ctrl", len(l["vsl"]))] if l.get("vsl") is not None else []
            self.meta[l["id"]] = dict(kind="link", name=l["name"], states=[("rho", l["N"]), ("v", l["N"])], actions=acts, dists=[])
        for o in spec["origins"]:
            k = o["kind"]
            if k == "ideal":
                self.meta[o["id"]] = dict(kind="origin", name=o["name"], states=[], actions=[], dists=[])
            else:
                a = "v_ctrl" if k == "main" else "r" if k in ("ramp_in", "ramp_out") else "q"
                self.meta[o["id"]] = dict(kind="origin", name=o["name"], states=[("w", 1)], actions=[(a, 1)], dists=[("d", 1)])
        for d in spec["dests"]:
            self.meta[d["id"]] = dict(kind="dest", name=d["name"], states=[], actions=[], dists=[("d", 1)] if d["kind"] == "cong" else [])
        self.link_order = [i for i in order if self.meta[i]["kind"] == "link"]
        self.origin_order = [i for i in order if self.meta[i]["kind"] == "origin"]

    # ---- entries: list of (arg name, [(element id, var, size), ...])
    def _group(self, grp):
        return [(i, var, n) for i in self.order for (var, n) in self.meta[i][grp]]

    def inputs(self, level, params=None):
        """params: list of (name, size) in declared order."""
        out = []
        groups = [self._group("states"), self._group("actions"), self._group("dists")]
        if level <= 0:
            for g in groups:
                for (i, var, n) in g:
                    out.append((f"{var}_{self.meta[i]['name']}", [(i, var, n)]))
        else:
            byvar_groups = []
            for g in groups:
                byvar = {}
                for (i, var, n) in g:
                    byvar.setdefault(var, []).append((i, var, n))
                byvar_groups.append(byvar)
            if level == 1:
                for byvar in byvar_groups:
                    for var, items in byvar.items():
                        out.append((var, items))
            else:
                for nm, byvar in zip(("x", "u", "d"), byvar_groups):
                    out.append((nm, [it for items in byvar.values() for it in items]))
        if params:
            if level <= 0:
                for (nm, n) in params:
                    out.append((nm, [("$p", nm, n)]))
            else:
                out.append(("p", [("$p", nm, n) for (nm, n) in params]))
        return out

    def outputs(self, level, more_out=False):
        g = self._group("states")
        out = []
        if level <= 0:
            for (i, var, n) in g:
                out.append((f"{var}_{self.meta[i]['name']}+", [(i, var, n)]))
        else:
            byvar = {}
            for (i, var, n) in g:
                byvar.setdefault(var, []).append((i, var, n))
            if level == 1:
                for var, items in byvar.items():
                    out.append((var + "+", items))
            else:
                out.append(("x+", [it for items in byvar.values() for it in items]))
        if more_out:
            lq = [(i, "$q", dict(self.meta[i]["states"])["rho"]) for i in self.link_order]
            oq = [(i, "$q_o", 1) for i in self.origin_order]
            if level <= 0:
                out += [(f"q_{self.meta[i]['name']}", [(i, v, n)]) for (i, v, n) in lq]
                out += [(f"q_o_{self.meta[i]['name']}", [(i, v, n)]) for (i, v, n) in oq]
            elif level == 1:
                out += [("q", lq), ("q_o", oq)]
            else:
                out += [("q", lq + oq)]
        return out

    # ---- numeric marshalling
    def args(self, level, state, params=None, pvals=None):
        vals = []
        for _name, items in self.inputs(level, params):
            chunk = []
            for (i, var, n) in items:
                if i == "$p":
                    v = np.atleast_1d(np.asarray(pvals[var], dtype=float)).reshape(-1)
                else:
                    v = np.asarray(state[i][var], dtype=float).reshape(-1)
                assert len(v) == n, (i, var, n, v)
                chunk.append(v)
            flat = np.concatenate(chunk) if chunk else np.zeros(0)
            vals.append(cs.DM(flat.reshape(-1, 1)) if flat.size else cs.DM(0, 1))
        return vals

    def parse(self, level, outs, more_out=False):
        """outs: list of DM in positional order -> (next, q, q_o)."""
        nxt, q, qo = {}, {}, {}
        lay = self.outputs(level, more_out)
        if len(lay) != len(outs):
            raise LayoutMismatch(f"expected {len(lay)} results {[n for n, _ in lay]}, function returned {len(outs)}")
        for (name, items), val in zip(lay, outs):
            flat = np.array(val, dtype=float).reshape(-1)
            pos = 0
            for (i, var, n) in items:
                if pos + n > len(flat):
                    raise LayoutMismatch(f"result {name!r}: {len(flat)} entries, but {var} of {i} is expected at {pos}:{pos + n}")
                piece = flat[pos : pos + n]
                pos += n
                if var == "$q":
                    q[i] = piece
                elif var == "$q_o":
                    qo[i] = float(piece[0])
                else:
                    nxt.setdefault(i, {})[var] = piece
            if pos != len(flat):
                raise LayoutMismatch(f"result {name!r}: expected {pos} entries, got {len(flat)}")
        return nxt, q, qo

    def sizes(self, entries):
        return [sum(n for (_i, _v, n) in items) for _nm, items in entries]
