"""One extra Hypothesis shard run by an interpreter started with -O (assert statements stripped).

The properties do not depend on the interpreter's optimisation flag, so the same strategy and the same
oracle are run once more in a `python -O` child; code under test that (mis)uses `assert` for work it
relies on behaves differently only there.  Result (Stats, found) is pickled to <out>.

usage: python -O opt_child.py <Cxx> <tier> <seed> <shard> <nshards> <n> <shrink 0|1> <out.pkl> [excluded...]
"""
import os
import pickle
import sys

ROOT = os.path.dirname(os.path.dirname(os.path.abspath(__file__)))
sys.path.insert(0, ROOT)

from lib import harness  # noqa: E402


def main():
    prop, tier, seed, shard, nshards, n, shrink, out = sys.argv[1:9]
    excluded = set(sys.argv[9:])
    if not sys.flags.optimize:
        raise SystemExit("opt_child must run under python -O")
    res = harness._worker((prop, tier, int(seed), int(shard), int(nshards), int(n), excluded, shrink == "1", "hyp"))
    tmp = out + ".tmp"
    with open(tmp, "wb") as f:
        pickle.dump(res, f)
    os.replace(tmp, out)


if __name__ == "__main__":
    main()
