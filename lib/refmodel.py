"""Independent scalar reference of one METANET step (Hegyi 2004, eqs 3.1-3.11, node rules of
section 3.2.2, origin/destination laws of 3.2.1/3.3), written segment by segment in Python floats
with explicit neighbour look-ups on the plain-data spec.  No vector shifts, no networkx, no code
from the repository.

Each value comes with a *scale* = sum of absolute values of the terms added to form it; agreement
is judged relative to that scale.
"""
import math

from lib import spec as S

DEFAULT_VARIANT = {"clamp": True, "gain_term": True, "lone_ramp_term": False}


def sdiv(a, b):
    if b == 0:
        if a != a or a == 0:
            return math.nan
        return math.copysign(math.inf, a) * (math.copysign(1.0, b))
    return a / b


def spow(x, y):
    try:
        if x < 0 and y != int(y):
            return math.nan
        return x**y
    except (OverflowError, ZeroDivisionError, ValueError):
        return math.nan


def slog(x):
    if x != x or x < 0:
        return math.nan
    if x == 0:
        return -math.inf
    return math.log(x)


def sexp(x):
    try:
        return math.exp(x)
    except OverflowError:
        return math.inf


def veq(rho, l):
    return l["v_free"] * sexp(-(1.0 / l["a"]) * spow(rho / l["rho_crit"], l["a"]))


def origin_flow(o, l, state, T, variant, labels=None):
    """Flow admitted by origin o into link l (its single leaving link)."""
    lab = labels if labels is not None else set()
    k = o["kind"]
    ls = state[l["id"]]
    if k == "ideal":
        return ls["rho"][0] * ls["v"][0] * l["lam"]
    s = state[o["id"]]
    w, d = s["w"][0], s["d"][0]
    supply = d + w / T
    if k == "main":
        vlim = min(s["v_ctrl"][0], ls["v"][0])
        vcrit = veq(l["rho_crit"], l)
        if vlim < vcrit:
            ratio = vlim / l["v_free"]
            if ratio == 0:
                lab.add("main:vlim=0")
                qlim = 0.0
            else:
                if 0 < ratio < 0.05:
                    lab.add("main:ratio<0.05")
                if variant["clamp"]:
                    ratio = max(0.05, min(1.0, ratio))
                qlim = (
                    l["lam"]
                    * vlim
                    * l["rho_crit"]
                    * spow(-l["a"] * slog(ratio), 1.0 / l["a"])
                )
            lab.add("main:speed-limited" if qlim < supply else "main:demand-limited")
        else:
            qlim = l["lam"] * vcrit * l["rho_crit"]
            lab.add("main:capacity-limited" if qlim < supply else "main:demand-limited")
        return min(supply, qlim)
    space = (l["rho_max"] - ls["rho"][0]) / (l["rho_max"] - l["rho_crit"])
    C = o["C"]
    if k == "ramp_out":
        inner = C * min(1.0, space)
        lab.add("ramp:demand" if supply <= inner else ("ramp:space" if space < 1 else "ramp:capacity"))
        return s["r"][0] * min(supply, inner)
    if k == "ramp_in":
        r = s["r"][0]
        inner = C * min(r, space)
        lab.add("ramp:demand" if supply <= inner else ("ramp:space" if space < r else "ramp:rate"))
        return min(supply, inner)
    if k == "simp_unl":
        return s["q"][0]
    if k == "simp_lim":
        cap = C * min(1.0, space)
        qd = s["q"][0]
        m = min(qd, supply, cap)
        lab.add("simp:desired" if m == qd else ("simp:demand" if m == supply else "simp:space/capacity"))
        return m
    raise ValueError(k)


def ref_step(spec, state, variant=None):
    """Returns (out, qo, labels):
    out[id][var] = list of (value, scale); qo[origin id] = flow; labels = active branches."""
    variant = dict(DEFAULT_VARIANT, **(variant or {}))
    p = spec["pars"]
    T, tau, eta, kappa = p["T"], p["tau"], p["eta"], p["kappa"]
    delta, phi = p.get("delta"), p.get("phi")
    labels = set()
    out = {}
    qo = {}
    for o in spec["origins"]:
        outs = S.out_links(spec, o["node"])
        assert len(outs) == 1, "spec invalid: origin node must have exactly one leaving link"
        l = outs[0]
        qo[o["id"]] = origin_flow(o, l, state, T, variant, labels)
        if o["kind"] != "ideal":
            s = state[o["id"]]
            w, d = s["w"][0], s["d"][0]
            val = w + T * (d - qo[o["id"]])
            scale = abs(w) + abs(T * d) + abs(T * qo[o["id"]])
            out[o["id"]] = {"w": [(val, scale)]}

    for l in spec["links"]:
        s = state[l["id"]]
        rho, v, N = s["rho"], s["v"], l["N"]
        lam, L = l["lam"], l["L"]
        q = [rho[i] * v[i] * lam for i in range(N)]
        u, dn = l["up"], l["down"]
        ins = S.in_links(spec, u)
        o_up = S.origin_at(spec, u)
        qlast = [state[li["id"]]["rho"][-1] * state[li["id"]]["v"][-1] * li["lam"] for li in ins]
        vlast = [state[li["id"]]["v"][-1] for li in ins]
        Q = sum(qlast) + (qo[o_up["id"]] if o_up else 0.0)
        Qabs = sum(abs(x) for x in qlast) + (abs(qo[o_up["id"]]) if o_up else 0.0)
        outs_u = S.out_links(spec, u)
        if len(outs_u) == 1:
            share = 1.0
        else:
            share = l["turnrate"] / sum(lo["turnrate"] for lo in outs_u)
        q0 = share * Q
        q0abs = share * Qabs
        if not ins:
            v0 = v[0]
        elif len(ins) == 1:
            v0 = vlast[0]
        else:
            v0 = sdiv(sum(a * b for a, b in zip(vlast, qlast)), sum(qlast))
        d_dn = S.dest_at(spec, dn)
        if d_dn is not None:
            rd = min(rho[-1], l["rho_crit"])
            labels.add("dest:rho<rho_crit" if rho[-1] < l["rho_crit"] else "dest:rho>=rho_crit")
            if d_dn["kind"] == "cong":
                scen = state[d_dn["id"]]["d"][0]
                if scen > rd:
                    labels.add("dest:scenario-active")
                rd = max(rd, scen)
        else:
            outs_d = S.out_links(spec, dn)
            firsts = [state[lo["id"]]["rho"][0] for lo in outs_d]
            if len(firsts) == 1:
                rd = firsts[0]
            else:
                rd = sdiv(sum(x * x for x in firsts), sum(firsts))
        rho_n, v_n = [], []
        for i in range(N):
            qu = q0 if i == 0 else q[i - 1]
            quabs = q0abs if i == 0 else abs(q[i - 1])
            vu = v0 if i == 0 else v[i - 1]
            rdn = rd if i == N - 1 else rho[i + 1]
            c = T / (lam * L)
            rho_n.append((rho[i] + c * (qu - q[i]), abs(rho[i]) + c * (quabs + abs(q[i]))))
            V = veq(rho[i], l)
            if l.get("vsl") is not None and i in l["vsl"]:
                lim = (1 + l["alpha"]) * s["v_ctrl"][l["vsl"].index(i)]
                labels.add("vsl:active" if lim < V else "vsl:inactive")
                V = min(V, lim)
            relax = T / tau * (V - v[i])
            conv = T / L * v[i] * (vu - v[i])
            antic = sdiv(eta * T / (tau * L) * (rdn - rho[i]), rho[i] + kappa)
            vn = v[i] + relax + conv - antic
            sc = (
                abs(v[i])
                + T / tau * (abs(V) + abs(v[i]))
                + T / L * abs(v[i]) * (abs(vu) + abs(v[i]))
                + sdiv(abs(eta * T / (tau * L)) * (abs(rdn) + abs(rho[i])), abs(rho[i] + kappa))
            )
            if (
                i == 0
                and delta is not None
                and o_up is not None
                and o_up["kind"] in S.RAMP_KINDS
                and (ins or variant["lone_ramp_term"])
            ):
                term = sdiv(delta * T * qo[o_up["id"]] * v[0], L * lam * (rho[0] + kappa))
                vn -= term
                sc += abs(term)
                labels.add("merging-term")
            if i == N - 1 and phi is not None and d_dn is None:
                outs_d = S.out_links(spec, dn)
                if len(outs_d) == 1:
                    dl = lam - outs_d[0]["lam"]
                    if dl > 0 or (dl < 0 and variant["gain_term"]):
                        term = phi * T * dl * rho[-1] * v[-1] * v[-1] / (L * lam * l["rho_crit"])
                        vn -= term
                        sc += abs(term)
                        labels.add("lane-drop-term" if dl > 0 else "lane-gain-term")
                        if N == 1 and "merging-term" in labels and delta is not None and o_up is not None and o_up["kind"] in S.RAMP_KINDS and ins:
                            labels.add("merging+lane-term-on-one-segment")
            v_n.append((vn, sc))
        out[l["id"]] = {"rho": rho_n, "v": v_n}
    return out, qo, labels


def underdetermined_variants(spec, state):
    """Variants of the reference in the three corners Hegyi's text does not fix (DESIGN 3.1).
    Returns list of variant dicts beyond the default that are relevant for this case."""
    vs = []
    p = spec["pars"]
    # 1. mainstream ratio in (0, 0.05)
    for o in spec["origins"]:
        if o["kind"] == "main":
            l = S.out_links(spec, o["node"])[0]
            vlim = min(state[o["id"]]["v_ctrl"][0], state[l["id"]]["v"][0])
            if 0 < vlim / l["v_free"] < 0.05:
                vs.append({"clamp": False})
                break
    # 2. lane gain with phi
    if p.get("phi") is not None:
        for l in spec["links"]:
            if S.dest_at(spec, l["down"]) is None:
                outs = S.out_links(spec, l["down"])
                if len(outs) == 1 and l["lam"] - outs[0]["lam"] < 0:
                    vs.append({"gain_term": False})
                    break
    # 3. lone ramp with delta
    if p.get("delta") is not None:
        for o in spec["origins"]:
            if o["kind"] in S.RAMP_KINDS and not S.in_links(spec, o["node"]):
                vs.append({"lone_ramp_term": True})
                break
    # all combinations
    combos = [{}]
    for v in vs:
        combos = combos + [dict(c, **v) for c in combos]
    return combos[1:]


def close(got, ref, scale, rtol=1e-9, atol=1e-12):
    if math.isnan(ref):
        return math.isnan(got)
    if math.isinf(ref):
        return got == ref
    if math.isnan(got):
        return False
    return abs(got - ref) <= rtol * scale + atol


def compare(got, refs, rtol=1e-9):
    """got: {id: {var: array}}, refs: list of reference outputs (default first, then variants).
    Returns list of (id, var, index, got, ref, scale) mismatching *every* reference."""
    bad = []
    ref0 = refs[0]
    for i, vars_ in ref0.items():
        if i not in got:
            bad.append((i, "<missing element>", -1, None, None, None))
            continue
        for var, vals in vars_.items():
            g = got[i].get(var)
            if g is None or len(g) != len(vals):
                bad.append((i, var, -1, None if g is None else list(map(float, g)), [x[0] for x in vals], None))
                continue
            for k, (r, sc) in enumerate(vals):
                gv = float(g[k])
                if close(gv, r, sc, rtol):
                    continue
                if any(close(gv, *ref[i][var][k], rtol) for ref in refs[1:]):
                    continue
                bad.append((i, var, k, gv, r, sc))
    return bad


def scales(spec, state):
    """{id: {var: [scale]}}: magnitude of the terms forming each next-state entry (for tolerances)."""
    out, _qo, _lab = ref_step(spec, state)
    return {i: {var: [x[1] for x in vals] for var, vals in vs.items()} for i, vs in out.items()}


def compare_pair(a, b, sc, rtol=1e-9, atol=1e-12, fallback=False):
    """Entry-wise comparison of two next-state dicts {id: {var: array}} with term scales sc.
    Returns (mismatches, all_finite): mismatches = list of (id, var, k, a, b, scale|None, why)."""
    bad = []
    finite = True
    for i, vs in b.items():
        if i not in a:
            bad.append((i, "*", -1, None, None, None, "missing-element"))
            continue
        for var, bv in vs.items():
            av = a[i].get(var)
            if av is None or len(av) != len(bv):
                bad.append((i, var, -1, None if av is None else [float(x) for x in av], [float(x) for x in bv], None, "shape"))
                continue
            for k in range(len(bv)):
                x, y = float(av[k]), float(bv[k])
                s_ = sc[i][var][k]
                if math.isnan(x) or math.isnan(y):
                    finite = False
                    if math.isnan(x) != math.isnan(y):
                        bad.append((i, var, k, x, y, s_, "nan"))
                    continue
                if math.isinf(x) or math.isinf(y):
                    finite = False
                    if x != y:
                        bad.append((i, var, k, x, y, s_, "inf"))
                    continue
                if not math.isfinite(s_):
                    finite = False
                    if not fallback:
                        continue
                    s_ = abs(x) + abs(y)  # the reference has no finite scale here (model's own 0/0): value-relative
                if abs(x - y) > rtol * s_ + atol:
                    bad.append((i, var, k, x, y, s_, "value"))
    for i in a:
        if i not in b:
            bad.append((i, "*", -1, None, None, None, "extra-element"))
    return bad, finite
