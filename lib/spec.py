"""Plain-data network "spec" and builder to sym_metanet objects.

spec = {
  "nodes":   [{"id": "n0", "name": "n0"}, ...],
  "links":   [{"id": "L0", "name": .., "up": "n0", "down": "n1", "N": 3, "lam": 2, "L": 1.0,
               "rho_max": .., "rho_crit": .., "v_free": .., "a": .., "turnrate": ..,
               "vsl": None | [idx..], "alpha": None | float}, ...],
  "origins": [{"id": "O0", "node": "n0", "name": .., "kind": ideal|main|ramp_in|ramp_out|simp_lim|simp_unl, "C": ..}],
  "dests":   [{"id": "D0", "node": "n1", "name": .., "kind": free|cong}],
  "pars":    {"T":.., "tau":.., "eta":.., "kappa":.., "delta": None|.., "phi": None|..},
  "plan":    optional list of construction operations (see `build`)
}
state = {"L0": {"rho": [...], "v": [...], "v_ctrl": [...]}, "O0": {"w": [x], "d": [x], "r"|"q"|"v_ctrl": [x]},
         "D0": {"d": [x]}}
"""
import math

from lib.sut import (
    CongestedDestination,
    Destination,
    Link,
    LinkWithVsl,
    MainstreamOrigin,
    MeteredOnRamp,
    Network,
    Node,
    Origin,
    SimplifiedMeteredOnRamp,
    np,
)

RAMP_KINDS = ("ramp_in", "ramp_out", "simp_lim", "simp_unl")
ORIGIN_KINDS = ("ideal", "main") + RAMP_KINDS
OPT_NAMES = (
    "positive_init_speed",
    "positive_init_density",
    "positive_init_queue",
    "positive_next_speed",
    "positive_next_density",
    "positive_next_queue",
)


def make_link(l, overrides=None):
    o = overrides or {}
    args = (
        l["N"],
        o.get("lam", l["lam"]),
        o.get("L", l["L"]),
        o.get("rho_max", l["rho_max"]),
        o.get("rho_crit", l["rho_crit"]),
        o.get("v_free", l["v_free"]),
        o.get("a", l["a"]),
    )
    if l.get("vsl") is None:
        return Link(*args, turnrate=l["turnrate"], name=l["name"])
    return LinkWithVsl(
        *args,
        turnrate=l["turnrate"],
        name=l["name"],
        segments_with_vsl=set(reversed(l["vsl"])),  # a set: the library must not rely on its iteration order
        alpha=l["alpha"],
    )


def make_origin(o, overrides=None):
    k = o["kind"]
    C = (overrides or {}).get("C", o.get("C"))
    if k == "ideal":
        return Origin(name=o["name"])
    if k == "main":
        return MainstreamOrigin(name=o["name"])
    if k == "ramp_in":
        return MeteredOnRamp(C, "in", name=o["name"])
    if k == "ramp_out":
        return MeteredOnRamp(C, "out", name=o["name"])
    if k == "simp_lim":
        return SimplifiedMeteredOnRamp(C, "limited", name=o["name"])
    if k == "simp_unl":
        return SimplifiedMeteredOnRamp(C, "unlimited", name=o["name"])
    raise ValueError(k)


def make_dest(d):
    if d["kind"] == "free":
        return Destination(name=d["name"])
    return CongestedDestination(name=d["name"])


def build(spec, overrides=None):
    """Builds the network through the public construction API following spec["plan"].

    overrides: {element id: {param: value}} to substitute (e.g. symbolic) parameters.
    plan operations (anything not covered by the plan is added at the end in spec order):
      ["nodes", [node ids]]            add_nodes
      ["node", node id]                add_node
      ["link", link id]                add_link
      ["links", [link ids]]            add_links
      ["path", [link ids], with_origin: bool, with_dest: bool]   add_path along a chain of links
      ["origin", origin id]            add_origin
      ["dest", dest id]                add_destination
    Returns (net, els, nodes): els maps element id -> object, nodes maps node id -> Node.
    """
    overrides = overrides or {}
    nodes = {n["id"]: Node(name=n["name"]) for n in spec["nodes"]}
    links = {l["id"]: l for l in spec["links"]}
    origins = {o["id"]: o for o in spec["origins"]}
    dests = {d["id"]: d for d in spec["dests"]}
    o_at = {o["node"]: o for o in spec["origins"]}
    d_at = {d["node"]: d for d in spec["dests"]}
    els = {}
    for l in spec["links"]:
        els[l["id"]] = make_link(l, overrides.get(l["id"]))
    for o in spec["origins"]:
        els[o["id"]] = make_origin(o, overrides.get(o["id"]))
    for d in spec["dests"]:
        els[d["id"]] = make_dest(d)
    net = Network(spec.get("name") or "net") if spec.get("name", "net") is not None else Network()
    done = set()
    for op in spec.get("plan") or []:
        kind = op[0]
        if kind == "nodes":
            net.add_nodes([nodes[i] for i in op[1]])
        elif kind == "node":
            net.add_node(nodes[op[1]])
        elif kind == "link":
            l = links[op[1]]
            net.add_link(nodes[l["up"]], els[l["id"]], nodes[l["down"]])
            done.add(l["id"])
        elif kind == "links":
            net.add_links(
                [(nodes[links[i]["up"]], els[i], nodes[links[i]["down"]]) for i in op[1]]
            )
            done.update(op[1])
        elif kind == "path":
            chain = [links[i] for i in op[1]]
            path = [nodes[chain[0]["up"]]]
            for l in chain:
                path += [els[l["id"]], nodes[l["down"]]]
            first, last = chain[0]["up"], chain[-1]["down"]
            o = o_at.get(first) if op[2] else None
            d = d_at.get(last) if op[3] else None
            net.add_path(
                path,
                origin=els[o["id"]] if o else None,
                destination=els[d["id"]] if d else None,
            )
            done.update(op[1])
            if o:
                done.add(o["id"])
            if d:
                done.add(d["id"])
        elif kind == "origin":
            o = origins[op[1]]
            net.add_origin(els[o["id"]], nodes[o["node"]])
            done.add(o["id"])
        elif kind == "dest":
            d = dests[op[1]]
            net.add_destination(els[d["id"]], nodes[d["node"]])
            done.add(d["id"])
        elif kind == "dummy":
            # a throwaway object of the same kind on the same edge / node; the real element is added later and
            # replaces it ("later attachments replace earlier ones")
            i = op[1]
            if i in links:
                l = links[i]
                net.add_link(nodes[l["up"]], make_link(dict(l, name=l["name"] + "~")), nodes[l["down"]])
            elif i in origins:
                o = origins[i]
                net.add_origin(make_origin(dict(o, name=o["name"] + "~")), nodes[o["node"]])
            else:
                d = dests[i]
                net.add_destination(make_dest(dict(d, name=d["name"] + "~")), nodes[d["node"]])
        elif kind == "elsewhere":
            # the element object is first used (and stepped) in another, throwaway network
            i = op[1]
            other = Network("other")
            a, b = Node(name="a~"), Node(name="b~")
            lk = make_link(dict(spec["links"][0], name="tmp~", vsl=None, alpha=None, N=2))
            if i in origins:
                other.add_path((a, lk, b), origin=els[i], destination=Destination(name="d~"))
            else:
                other.add_path((a, lk, b), origin=Origin(name="o~"), destination=els[i])
            try:
                from lib.sut import NumpyEngine

                other.step(engine=NumpyEngine(1.0), **pars_kwargs(spec))
            except Exception:
                pass
        elif kind == "read":
            read_lookups(net)
        elif kind == "trystep":
            # step the partially built network (result not judged: it need not be valid yet); this
            # fills every cache a step fills, so that later construction calls must invalidate them
            from lib.sut import NumpyEngine

            try:
                net.step(engine=NumpyEngine(1.0), **pars_kwargs(spec))
            except Exception:
                pass
        else:
            raise ValueError(op)
    for l in spec["links"]:
        if l["id"] not in done:
            net.add_link(nodes[l["up"]], els[l["id"]], nodes[l["down"]])
    for o in spec["origins"]:
        if o["id"] not in done:
            net.add_origin(els[o["id"]], nodes[o["node"]])
    for d in spec["dests"]:
        if d["id"] not in done:
            net.add_destination(els[d["id"]], nodes[d["node"]])
    return net, els, nodes


def read_lookups(net):
    """Reads every cached lookup the network offers."""
    out = []
    for name in ("nodes_by_name", "links_by_name", "nodes_by_link", "origins", "origins_by_name",
                 "origins_by_node", "destinations", "destinations_by_name", "destinations_by_node"):
        out.append(dict(getattr(net, name)))
    out.append(list(net.links))
    out.append(list(net.in_links))
    for n in list(net.nodes):
        out.append(list(net.out_links(n)))
        out.append(list(net.in_links(n)))
    return out


def ic_numpy(els, state):
    return {
        els[i]: {k: np.array(v, dtype=float) for k, v in s.items()}
        for i, s in state.items()
    }


def pars_kwargs(spec):
    d = dict(spec.get("extra_pars") or {})
    d.update({k: v for k, v in spec["pars"].items() if v is not None})
    return d


def opts_kwargs(opts):
    """opts: iterable of option names that are on."""
    return {name: True for name in (opts or [])}


def arrayify(els):
    """Turn rates as 0-d NumPy arrays: a legitimate parameter type for the NumPy engine (only for networks
    that are stepped with the NumPy engine exclusively)."""
    for el in els.values():
        if hasattr(el, "turnrate") and not isinstance(el.turnrate, np.ndarray):
            el.turnrate = np.array(float(el.turnrate))


def step_numpy(spec, state, opts=None, engine=None, built=None):
    """Builds a fresh network, steps it with the NumPy engine; returns (next, built)."""
    from lib.sut import NumpyEngine

    net, els, nodes = built or build(spec)
    if spec.get("array_params"):
        arrayify(els)
    eng = engine or NumpyEngine()
    net.step(
        init_conditions=ic_numpy(els, state),
        engine=eng,
        **opts_kwargs(opts),
        **pars_kwargs(spec),
    )
    out = {}
    for i, el in els.items():
        if el.next_states is not None and el.states is not None:
            out[i] = {
                k: np.asarray(v, dtype=float).reshape(-1) for k, v in el.next_states.items()
            }
    return out, (net, els, nodes)


# ---------------------------------------------------------------- structure helpers
def in_links(spec, node):
    return [l for l in spec["links"] if l["down"] == node]


def out_links(spec, node):
    return [l for l in spec["links"] if l["up"] == node]


def origin_at(spec, node):
    for o in spec["origins"]:
        if o["node"] == node:
            return o
    return None


def dest_at(spec, node):
    for d in spec["dests"]:
        if d["node"] == node:
            return d
    return None


def features(spec):
    """Topology / element-kind labels of a spec."""
    f = set()
    ids = [n["id"] for n in spec["nodes"]]
    indeg = {n: len(in_links(spec, n)) for n in ids}
    outdeg = {n: len(out_links(spec, n)) for n in ids}
    if any(v >= 2 for v in indeg.values()):
        f.add("merge")
    if any(v >= 2 for v in outdeg.values()):
        f.add("bifurcation")
    if any(indeg[n] == 1 and outdeg[n] >= 2 for n in ids):
        f.add("1in-multi-out")
    if any(indeg[n] >= 2 and outdeg[n] >= 2 for n in ids):
        f.add("multi-in-multi-out")
    for o in spec["origins"]:
        f.add("origin:" + o["kind"])
        if indeg[o["node"]] >= 1:
            f.add("interior-ramp")
        elif o["kind"] in RAMP_KINDS:
            f.add("ramp-only-source")
    for d in spec["dests"]:
        f.add("dest:" + d["kind"])
    if any(l["up"] == l["down"] for l in spec["links"]):
        f.add("self-loop")
    if has_cycle(spec):
        f.add("cycle")
    if n_components(spec) > 1:
        f.add("disconnected")
    for l in spec["links"]:
        if l["N"] == 1:
            f.add("single-segment-link")
        if l["N"] >= 3:
            f.add("link-N>=3")
        if l.get("vsl") is None:
            f.add("vsl:none")
        elif not l["vsl"]:
            f.add("vsl:empty")
        elif len(l["vsl"]) == l["N"]:
            f.add("vsl:all")
        else:
            f.add("vsl:some")
    if spec["pars"].get("delta") is not None:
        f.add("delta")
    if spec["pars"].get("phi") is not None:
        f.add("phi")
    for l in spec["links"]:
        outs = out_links(spec, l["down"])
        if len(outs) == 1:
            dl = l["lam"] - outs[0]["lam"]
            f.add("lane-drop>0" if dl > 0 else "lane-drop<0" if dl < 0 else "lane-drop=0")
    if len(spec["links"]) > 16:
        f.add("links>16")
    if any(v >= 3 for v in indeg.values()):
        f.add("merge>=3")
    lnames = {l["name"]: l["N"] for l in spec["links"]}
    if any(l["N"] >= 2 and any(f"{l['name']}_{k}" in lnames for k in range(l["N"])) for l in spec["links"]):
        f.add("names:entry-collision")
    for n in spec["nodes"]:
        tr = [float(l["turnrate"]) for l in out_links(spec, n["id"])]
        if tr and max(tr) < 1e-9:
            f.add("turnrates:tiny")
        if len(tr) >= 2 and sum(tr) != 1.0 and abs(sum(tr) - 1.0) <= 1e-5:
            f.add("turnrates:sum-nearly-one")
    return f


def has_cycle(spec):
    adj = {}
    for l in spec["links"]:
        adj.setdefault(l["up"], []).append(l["down"])
    color = {}

    def dfs(u):
        color[u] = 1
        for v in adj.get(u, []):
            c = color.get(v, 0)
            if c == 1:
                return True
            if c == 0 and dfs(v):
                return True
        color[u] = 2
        return False

    return any(color.get(n["id"], 0) == 0 and dfs(n["id"]) for n in spec["nodes"])


def n_components(spec):
    parent = {n["id"]: n["id"] for n in spec["nodes"]}

    def find(x):
        while parent[x] != x:
            parent[x] = parent[parent[x]]
            x = parent[x]
        return x

    for l in spec["links"]:
        parent[find(l["up"])] = find(l["down"])
    return len({find(n) for n in parent})


def singular(spec, state):
    """True if the state hits the model's own 0/0: a merge (>=2 entering links) with zero total
    entering last-segment flow, or a node with >=2 leaving links with zero total first-segment
    density."""
    for n in spec["nodes"]:
        ins = in_links(spec, n["id"])
        if len(ins) >= 2:
            tot = sum(
                state[l["id"]]["rho"][-1] * state[l["id"]]["v"][-1] * l["lam"] for l in ins
            )
            if not tot > 0:
                return True
        outs = out_links(spec, n["id"])
        if len(outs) >= 2 and ins:
            tot = sum(state[l["id"]]["rho"][0] for l in outs)
            if not tot > 0:
                return True
    return False


def isfinite_state(state):
    return all(math.isfinite(x) or x == math.inf for s in state.values() for v in s.values() for x in v)
