"""Import the code under test from the working tree (never from an installed copy).

VERIF_REPO exists only so that the sensitivity runner can point a check at a
mutated scratch copy; the registered commands leave it unset (= /repo).
"""
import os
import sys
import warnings

REPO = os.path.abspath(os.environ.get("VERIF_REPO", "/repo"))
SRC = os.path.join(REPO, "src")
if SRC not in sys.path:
    sys.path.insert(0, SRC)
# drop any previously imported copy (editable installs)
for _m in [m for m in sys.modules if m == "sym_metanet" or m.startswith("sym_metanet.")]:
    del sys.modules[_m]

warnings.filterwarnings("ignore")

import numpy as np  # noqa: E402
import casadi as cs  # noqa: E402
import sym_metanet  # noqa: E402

if not os.path.abspath(sym_metanet.__file__).startswith(SRC + os.sep):
    raise ImportError(
        f"sym_metanet imported from {sym_metanet.__file__}, expected under {SRC}"
    )

from sym_metanet import (  # noqa: E402,F401
    CongestedDestination,
    Destination,
    EngineNotFoundError,
    InvalidNetworkError,
    Link,
    LinkWithVsl,
    MainstreamOrigin,
    MeteredOnRamp,
    Network,
    Node,
    Origin,
    SimplifiedMeteredOnRamp,
    engines,
)
from sym_metanet.engines.casadi import Engine as CasadiEngine  # noqa: E402,F401
from sym_metanet.engines.numpy import Engine as NumpyEngine  # noqa: E402,F401
from sym_metanet.engines.core import EngineBase  # noqa: E402,F401

np.seterr(all="ignore")
