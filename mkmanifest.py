#!/venv/bin/python
"""Regenerates MANIFEST.json from the table below; a property is claimed only if props/<id>.py exists."""
import json
import os
import subprocess

ROOT = os.path.dirname(os.path.abspath(__file__))

META = {
    "C01": dict(
        technique="property-based differential testing against an independent scalar reference model (Hypothesis growth-grammar networks)",
        text="No counterexample among generated valid networks x admissible states when NumPy step and compiled CasADi function are compared entry-wise with an independent reference transcription of Hegyi's equations; feature/branch histogram reported. Exploration only: never proves absence.",
        note="Trusts lib/refmodel.py as the statement of the METANET equations; tolerance 1e-9 x term scale; three under-determined corners accept either reading.",
        ref="4/C01, 3.1",
    ),
    "C02": dict(
        technique="property-based invariant checking (vehicle balance from the step's own inputs/outputs)",
        text="Vehicle balance network-wide and per node recomputed from inputs/outputs of NumPy steps and compiled functions over generated networks; no reference model involved.",
        note="Tolerance 1e-9 x sum of absolute terms; positivity options off.",
        ref="4/C02",
    ),
    "C03": dict(
        technique="property-based differential testing: compiled CasADi function (SX/MX, compact 0/1/2, +-symbolic parameters) vs NumPy twin",
        text="Generated networks compiled under every symbol type/compactness level and evaluated at generated numbers must equal the NumPy step of a twin network.",
        note="Output mapping uses lib/layout.py; tolerance 1e-9 x scale.",
        ref="4/C03",
    ),
    "C04": dict(
        technique="property-based model checking of the function signature (layout model) + metamorphic concatenation relation + feed-back",
        text="Names/sizes/order of arguments and results equal an independent layout model at all three levels; levels related by the documented concatenation; results fed back equal two NumPy steps.",
        note="Element enumeration order is taken from net.elements as the property says.",
        ref="4/C04, 3.3",
    ),
    "C05": dict(
        technique="property-based invariant checking on more_out outputs",
        text="q = rho*v*lam from the inputs; w+ = w + T(d - q_o); fed-segment balance with reported q_o, over generated networks.",
        note="All quantities are the function's own inputs and outputs.",
        ref="4/C05",
    ),
    "C06": dict(
        technique="bounded exhaustive enumeration of graphs + random edits, differential against an independent 9-condition predicate",
        text="All graphs up to the size bound built through the public API agree with the predicate; random edits of larger networks beyond.",
        note="Predicate in lib/graphmodel.py written from the is_valid docstring.",
        ref="4/C06, 3.2",
    ),
    "C07": dict(
        technique="property-based robustness testing (no exception, shapes, finiteness) over engines/options/boundary states",
        text="Valid generated networks step and compile on all engines/levels/options; shapes preserved; finite outputs for finite admissible inputs incl. exact zeros.",
        note="Model's own 0/0 excluded by construction.",
        ref="4/C07",
    ),
    "C08": dict(
        technique="model-based stateful testing: exhaustive short histories + random long histories, lookups vs recomputation from net.graph",
        text="Every lookup equals its recomputation from the graph after every operation for all histories up to the bound and random ones beyond.",
        note="Ties among same-named elements: key set equal and value among candidates.",
        ref="4/C08",
    ),
    "C09": dict(
        technique="model-based stateful testing of the construction API incl. malformed paths",
        text="Graph equals a dict model after every call; malformed paths must raise; node-type invariant.",
        note="Atomicity of rejected paths is not asserted.",
        ref="4/C09",
    ),
    "C10": dict(
        technique="property-based structural check: Jacobian sparsity of compiled function within allowed-dependency relation + numeric perturbation on both engines",
        text="For generated networks the structural Jacobian sparsity (valid for all numeric inputs) is contained in the allowed relation; perturbation confirms on NumPy.",
        note="Allowed relation derived from the spec by lib/deps.py.",
        ref="4/C10",
    ),
    "C11": dict(
        technique="property-based metamorphic testing: step with options = clamp(step without options(clamp(inputs)))",
        text="All 64 option sets visited over generated networks with negative inputs on both engines.",
        note="Entries whose plain result is NaN are skipped and counted.",
        ref="4/C11",
    ),
    "C12": dict(
        technique="stateful property-based testing: byte snapshots of caller data and A,B,A repeatability",
        text="Histories of steps/compilations on the same objects leave supplied arrays/dicts/parameters untouched and are repeatable bit-for-bit.",
        note="",
        ref="4/C12",
    ),
    "C13": dict(
        technique="model-based stateful testing with spy engines",
        text="Selection model and call logs over generated histories of use()/step with all (selected, explicit) engine pairs.",
        note="",
        ref="4/C13",
    ),
    "C14": dict(
        technique="property-based metamorphic testing: permuted construction, renaming, per-node turn-rate scaling",
        text="Per-element next states equal between a network and its transformed twin (also when the turn rates of an already stepped network are rescaled in place); inflow share = beta/sum(beta).",
        note="Tolerance 1e-9 x scale.",
        ref="4/C14",
    ),
    "C15": dict(
        technique="property-based differential testing of every engine primitive (NumPy vs CasADi DM)",
        text="All primitives x shapes x boundary values agree and are finite.",
        note="Tolerance 1e-10 relative.",
        ref="4/C15",
    ),
    "C16": dict(
        technique="property-based differential testing: symbolic parameters vs substituted numbers",
        text="Function with declared symbolic parameters evaluated at values equals function compiled with the numbers; trailing-argument order checked.",
        note="",
        ref="4/C16",
    ),
    "C17": dict(
        technique="property-based invariant checking of origin-flow bounds on primitives and stepped networks",
        text="0 <= q <= min(d+w/T, capacity), zero at rho_max, w+ >= 0 over generated tuples incl. corners on both engines.",
        note="",
        ref="4/C17",
    ),
    "C18": dict(
        technique="property-based metamorphic testing on paired networks (controlled vs neutral element)",
        text="Equality/monotonicity relations of the property over generated pairs on both engines.",
        note="",
        ref="4/C18",
    ),
    "C19": dict(
        technique="model-based stateful testing of construct/init/step/compile histories with a readiness model and NumPy twin",
        text="to_function raises RuntimeError exactly when the readiness model says not ready (one direction) and otherwise returns a closed function equal to the most recent step.",
        note="Outcomes the property leaves open are labelled, not judged.",
        ref="4/C19",
    ),
}

PENDING_REASON = "check not built yet in this session (planned in DESIGN.md section 4); not claimed until its machinery exists and is quiet on the unchanged tree"


def main():
    props = [json.loads(l) for l in open(os.path.join(ROOT, "properties.jsonl"))]
    checks, na = [], []
    for p in props:
        pid = p["id"]
        if os.path.exists(os.path.join(ROOT, "props", pid.lower() + ".py")):
            m = META[pid]
            checks.append(
                {
                    "property_id": pid,
                    "quick_cmd": f"./run.py {pid} --tier quick",
                    "thorough_cmd": f"./run.py {pid} --tier thorough",
                    "evidence_file": f"evidence/{pid}.json",
                    "replay_cmd_template": f"./run.py {pid} --replay {{path}}",
                    "engine": "pbt",
                    "level_claimed": {"category": "exploration", "text": m["text"], "design_ref": "DESIGN.md " + m["ref"]},
                    "level_note": m["note"] or "Generated-input search only; strength comes from the oracle and the reported label histogram.",
                    "technique": m["technique"],
                }
            )
        else:
            na.append({"property_id": pid, "reason": PENDING_REASON})
    fixes = subprocess.run(
        ["git", "-C", "/repo", "log", "--format=%h", "--grep", "^fix:"], capture_output=True, text=True
    ).stdout.split()
    man = {
        "version": 1,
        "setup_cmd": "./setup.sh",
        "hooks": {
            "guard": "SYM_METANET_VERIF",
            "enable": "no hooks: every observation point is public API; checks import /repo/src directly (VERIF_REPO overrides the path for the sensitivity runner only)",
            "baseline_off_cmd": "cd /repo && /venv/bin/python -m pytest -ra -q -p no:cacheprovider --timeout=900 --continue-on-collection-errors",
            "source_commits": [],
            "add_only": True,
        },
        "engines": [
            {
                "name": "pbt",
                "path": "run.py",
                "serves_properties": [c["property_id"] for c in checks],
                "kind_free_text": "Hypothesis 6.168 property-based / model-based stateful testing with bounded exhaustive enumeration tiers (C06, C08, C09) and, in the thorough tier, an atheris/libFuzzer coverage-guided campaign that drives the same strategies and oracles through hypothesis.fuzz_one_input; every run adds one shard of the same strategy and oracle executed by a `python -O` child (lib/opt_child.py); JSON cases, replay bypasses Hypothesis; committed regression cases under replays/<id>/regression_*.json are replayed by every run",
            }
        ],
        "checks": checks,
        "not_applicable": na,
        "notes": "Unguarded fix: commits in /repo (see KNOWN_FINDINGS.txt): " + " ".join(fixes)
        + ". exit 2 = harness error (never a verdict). VERIF_SEED seeds Hypothesis (seed*1000+shard).",
    }
    with open(os.path.join(ROOT, "MANIFEST.json"), "w") as f:
        json.dump(man, f, indent=1)
    print("claimed", [c["property_id"] for c in checks], "pending", [n["property_id"] for n in na])


if __name__ == "__main__":
    main()
