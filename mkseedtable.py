#!/venv/bin/python
"""Writes SEEDED.md: which registered checks catch which seeded change (from seeded/*/meta.json)."""
import glob
import json
import os

ROOT = os.path.dirname(os.path.abspath(__file__))
rows = []
for d in sorted(glob.glob(os.path.join(ROOT, "seeded", "*"))):
    m = json.load(open(os.path.join(d, "meta.json")))
    name = os.path.basename(d)
    res = m.get("results", {})
    caught = sorted(p for p, v in res.items() if v["exit"] == 1)
    missed = sorted(p for p, v in res.items() if v["exit"] == 0)
    err = sorted(p for p, v in res.items() if v["exit"] not in (0, 1))
    own = m.get("property", name[:3])
    sig = (res.get(own, {}).get("signatures") or [""])[0]
    bs = m.get("by_seed", {})
    if own in bs.get("1", {}):  # the most recent run of the own check at VERIF_SEED=1
        if bs["1"][own] == 1 and own not in caught:
            caught = sorted(caught + [own])
        if bs["1"][own] == 0 and own in caught:
            caught = [c for c in caught if c != own]
    rel = "/".join({1: "y", 0: "n"}.get(bs.get(v, {}).get(own), "-") for v in ("1", "2", "3"))
    rows.append((name, own, m.get("verified", {}).get("ok"), own in caught, caught, err, m.get("summary", "")[:160].replace("|", "/").replace("\n", " "), m.get("needs", "")[:140].replace("|", "/").replace("\n", " "), sig, rel))
with open(os.path.join(ROOT, "SEEDED.md"), "w") as f:
    f.write("# Seeded changes and the checks that catch them\n\n")
    f.write("Each change was written by a fresh sub-agent that saw only the text of one property and a scratch worktree of /repo. "
            "`verified` = the agent's demonstration passes on the unchanged tree, fails with the patch, and the pinned 32 baseline tests still pass with the patch "
            "(re-checked by `seedcheck.py` in a scratch copy). `caught by` = registered quick checks (full quick budget, `--no-shrink`) that exit 1 with the patch applied "
            "(run through `VERIF_REPO` on a scratch copy; /repo itself is never modified).\n\n")
    f.write("| seed | breaks | verified | own check catches | own check at VERIF_SEED 1/2/3 | caught by | first signature of own check | what was changed | what it needs |\n|---|---|---|---|---|---|---|---|---|\n")
    for (name, own, ok, owncatch, caught, err, summ, needs, sig, rel) in rows:
        f.write(f"| {name} | {own} | {'yes' if ok else 'NO'} | {'yes' if owncatch else '**no**'} | {rel} | {' '.join(caught)}{(' (harness error: ' + ' '.join(err) + ')') if err else ''} | `{sig}` | {summ} | {needs} |\n")
    n = len(rows)
    f.write(f"\n{sum(1 for r in rows if r[3])}/{n} caught by the check of the property they were written against; {sum(1 for r in rows if r[4])}/{n} caught by at least one check.\n")
print("rows", len(rows))
