#!/bin/sh
# Quietness on the unchanged tree at several seeds (fresh process per check). usage: multiseed.sh "2 3 4" [tier]
cd "$(dirname "$0")"
tier=${2:-quick}
for s in $1; do for c in 01 02 03 04 05 06 07 08 09 10 11 12 13 14 15 16 17 18 19; do
  out=$(VERIF_SEED=$s ./run.py C$c --tier $tier 2>&1); rc=$?
  echo "seed=$s C$c rc=$rc $(echo "$out" | grep -E '^C[0-9]+ tier' )"
  if [ $rc -ne 0 ]; then echo "$out" | head -20; fi
done; done
