"""C01 - one-step dynamics equal the METANET equations on every valid network.

Oracle: independent scalar reference model (lib/refmodel.py) vs
  (a) Network.step on the NumPy engine with numeric arrays,
  (b) the compiled CasADi function (compact=0, SX or MX) evaluated at the same numbers.
"""
from hypothesis import strategies as st

from lib import cas, gen_nets, layout, refmodel
from lib import spec as S
from lib.harness import crashed, guarded
from lib.sut import np

ID = "C01"
RULE = (
    "case = valid network from the growth grammar (<=9 nodes, 1..5 segments/link, per-link parameters, "
    "all origin/destination kinds, VSL subsets, optional delta/phi, drawn construction plan) x 1..3 admissible "
    "states (boundary-biased; model 0/0 excluded by construction) x optional compiled engine (SX/MX). "
    "Non-trivial = network has a merge, bifurcation, interior ramp or cycle AND no reference value is NaN AND "
    "the case does not fall in one of the three under-determined corners (DESIGN 3.1). "
    "Distinct = SHA-1 of the canonical JSON of the case."
)
BUDGET = {
    "quick": {"examples": 500, "shards": 4},
    "thorough": {"fuzz_runs": 3000, "examples": 8000, "shards": 16},
}
EXPECTED_LABELS = (
    "merge", "bifurcation", "1in-multi-out", "multi-in-multi-out", "interior-ramp", "ramp-only-source",
    "self-loop", "cycle", "single-segment-link", "origin:ideal", "origin:main", "origin:ramp_in",
    "origin:ramp_out", "origin:simp_lim", "origin:simp_unl", "dest:free", "dest:cong", "vsl:empty", "vsl:some",
    "vsl:all", "delta", "phi", "lane-drop>0", "lane-drop<0", "main:speed-limited", "main:capacity-limited",
    "main:demand-limited", "ramp:demand", "ramp:space", "ramp:capacity", "ramp:rate", "vsl:active",
    "dest:scenario-active", "merging-term", "lane-drop-term", "engine:SX", "engine:MX",
)
ASSUMPTIONS = [
    "reference model lib/refmodel.py is a faithful transcription of Hegyi (2004) eqs 3.1-3.11 and the node rules",
    "agreement tolerance 1e-9 * (sum of absolute terms) + 1e-12",
    "three under-determined corners (mainstream ratio in (0,0.05), lane gain with phi, lone ramp with delta) accept either reading",
]


@st.composite
def cases(draw):
    sp = draw(gen_nets.specs())
    n = draw(st.integers(1, 3))
    states = [draw(gen_nets.states(sp)) for _ in range(n)]
    comp = draw(st.sampled_from([None, None, None, "SX", "MX"]))
    rollout = draw(st.booleans())
    if rollout and draw(st.booleans()):
        # moderate, element-distinct first state so that the step's result is admissible and can be fed back
        states[0] = draw(gen_nets.distinct_states(sp))
        cfl = 0.4 * min(l["L"] for l in sp["links"]) / (1.1 * max(l["v_free"] for l in sp["links"]))
        sp["pars"]["T"] = min(sp["pars"]["T"], cfl)  # a sampling time for which the model stays in its domain
        gen_nets.fix_singular(draw, sp, states[0])
    return {"spec": sp, "states": states, "compile": comp, "rollout": rollout}


def strategy(tier):
    return cases()


def _deg(n):
    return "0" if n == 0 else "1" if n == 1 else "2+"


def signature(spec, eng, i, var, k):
    if i.startswith("O"):
        o = next(o for o in spec["origins"] if o["id"] == i)
        return f"{eng}:w:{o['kind']}"
    l = next(l for l in spec["links"] if l["id"] == i)
    N = l["N"]
    parts = [eng, var]
    first, last = k == 0, k == N - 1
    if k < 0:
        return f"{eng}:{var}:shape"
    parts.append("only" if first and last else "first" if first else "last" if last else "interior")
    if first:
        u = l["up"]
        o = S.origin_at(spec, u)
        parts.append(f"up=in{_deg(len(S.in_links(spec, u)))}out{_deg(len(S.out_links(spec, u)))}:{o['kind'] if o else '-'}")
    if last and var == "v":
        d = S.dest_at(spec, l["down"])
        parts.append(f"dn={'dest:' + d['kind'] if d else 'out' + _deg(len(S.out_links(spec, l['down'])))}")
    if var == "v" and l.get("vsl") is not None:
        parts.append("vsl" if k in l["vsl"] else "novsl")
    return ":".join(parts)


def check_case(case, ctx):
    sp = case["spec"]
    feats = S.features(sp)
    ctx.label(*feats)
    built = guarded(ctx, "build", S.build, sp)
    if crashed(built):
        return
    net = built[0]
    ok = guarded(ctx, "is_valid", net.is_valid)
    if crashed(ok):
        return
    if not ok[0]:
        raise AssertionError(f"generator produced an invalid network: {ok[1]}")
    F = lay = None
    if case.get("compile"):
        ctx.label("engine:" + case["compile"])
        r = guarded(ctx, "compile", cas.compile_net, sp, case["compile"], 0)
        if not crashed(r):
            F = r[0]
            lay = layout.Layout(sp, layout.element_order(r[1], r[2]))  # positional: argument names are C04's business
    structural = bool(feats & {"merge", "bifurcation", "interior-ramp", "cycle"})
    for state in case["states"]:
        ref, qo, labels = refmodel.ref_step(sp, state)
        ctx.label(*labels)
        variants = refmodel.underdetermined_variants(sp, state)
        refs = [ref] + [refmodel.ref_step(sp, state, v)[0] for v in variants]
        has_nan = any(x[0] != x[0] for vs in ref.values() for vals in vs.values() for x in vals)
        if variants:
            ctx.label("underdetermined-corner")
        if has_nan:
            ctx.label("reference-nan")
        got = guarded(ctx, "numpy-step", S.step_numpy, sp, state, None, None, built)
        if not crashed(got):
            for (i, var, k, g, r, sc) in refmodel.compare(got[0], refs):
                ctx.fail(
                    signature(sp, "numpy", i, var, k),
                    f"NumPy engine: {var}+ of {i}[{k}] = {g!r}, reference {r!r} (scale {sc!r})",
                )
        if F is not None:
            def call():
                res = F(*lay.args(0, state))
                return lay.parse(0, list(res) if isinstance(res, (list, tuple)) else [res])[0]
            r = guarded(ctx, "call", call)
            if not crashed(r):
                nxt = r
                for (i, var, k, g, rr, sc) in refmodel.compare(nxt, refs):
                    ctx.fail(
                        signature(sp, "casadi", i, var, k),
                        f"compiled {case['compile']} function: {var}+ of {i}[{k}] = {g!r}, reference {rr!r} (scale {sc!r})",
                    )
        if structural and not has_nan and not variants:
            ctx.nontrivial = True
        if case.get("rollout") and not crashed(got) and state is case["states"][0]:
            rollout(ctx, sp, state, got, built)


def rollout(ctx, sp, state, got, built):
    """The usual simulation loop: feed the very objects in next_states back as initial conditions of
    the next step on the same network objects, and compare that second step with the reference."""
    import math

    nxt = got[0]
    state2 = {i: {v: list(x) for v, x in s_.items()} for i, s_ in state.items()}
    for i, vs in nxt.items():
        for var, arr in vs.items():
            state2[i][var] = [float(x) for x in arr]
    vals = [x for i in nxt for arr in state2[i].values() for x in arr if not math.isinf(x)]
    if not all(math.isfinite(x) and x >= 0 for x in vals) or S.singular(sp, state2):
        ctx.label("rollout-skipped")
        return
    ctx.label("rollout")
    net, els, _ = built
    ic = {}
    for i, el in els.items():
        if el.states is None and el.disturbances is None:
            continue
        d = {}
        if el.next_states:
            d.update(el.next_states)  # the same objects, as a simulation loop does
        for grp in (el.actions, el.disturbances):
            if grp:
                d.update(grp)
        ic[el] = d
    from lib.sut import NumpyEngine

    r = guarded(ctx, "numpy-rollout", lambda: net.step(init_conditions=ic, engine=NumpyEngine(), **S.pars_kwargs(sp)))
    if crashed(r):
        return
    got2 = {i: {k: np.asarray(v, dtype=float).reshape(-1) for k, v in el.next_states.items()} for i, el in els.items() if el.next_states}
    ref2 = refmodel.ref_step(sp, state2)[0]
    refs2 = [ref2] + [refmodel.ref_step(sp, state2, v)[0] for v in refmodel.underdetermined_variants(sp, state2)]
    for (i, var, k, g, r_, sc) in refmodel.compare(got2, refs2):
        ctx.fail("rollout:" + signature(sp, "numpy", i, var, k), f"second step fed with the first step's next_states objects: {var}+ of {i}[{k}] = {g!r}, reference {r_!r}")
