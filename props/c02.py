"""C02 - vehicles are conserved by every step, network-wide and at every node.

No reference model: the balance is computed only from the step's own inputs and outputs, for
 (a) NumPy next_states, (b) the compiled function's (x+, q, q_o) with more_out=True.
"""
from hypothesis import strategies as st

from lib import cas, gen_nets, layout
from lib import spec as S
from lib.harness import crashed, guarded
from props.c01 import _deg

ID = "C02"
RULE = (
    "case = valid growth-grammar network x 1..2 admissible states x optional compiled engine (SX/MX, compact "
    "0/1/2, more_out=True); positivity options off. Non-trivial = the network has at least one merge or "
    "bifurcation node (>=2 entering or >=2 leaving links) and all outputs are finite. Distinct = SHA-1 of the case."
)
BUDGET = {"quick": {"examples": 500, "shards": 4}, "thorough": {"fuzz_runs": 3000, "examples": 10000, "shards": 16}}
EXPECTED_LABELS = ("int-arrays", "rollout", "merge", "bifurcation", "1in-multi-out", "multi-in-multi-out", "interior-ramp", "self-loop",
                   "origin:ideal", "origin:simp_unl", "engine:SX", "engine:MX", "compact:0", "compact:1", "compact:2")
ASSUMPTIONS = ["tolerance 1e-9 x (sum of absolute values of the balance terms)"]
RTOL = 1e-9


@st.composite
def cases(draw):
    sp = draw(gen_nets.specs())
    states = [draw(gen_nets.states(sp)) for _ in range(draw(st.integers(1, 2)))]
    comp = draw(st.one_of(st.none(), st.none(), st.fixed_dictionaries({"sym": st.sampled_from(["SX", "MX"]), "compact": st.integers(0, 2)})))
    return {"spec": sp, "states": states, "compile": comp, "rollout": draw(st.booleans())}


def strategy(tier):
    return cases()


def balance(ctx, sp, state, nxt, eng, q_rep=None, qo_rep=None):
    """nxt: {id: {var: array}}; q_rep/qo_rep: reported flows (compiled function) or None."""
    T = sp["pars"]["T"]
    finite = True
    # --- recover flows
    def qseg(l, k):
        if q_rep is not None:
            return float(q_rep[l["id"]][k])
        s = state[l["id"]]
        return s["rho"][k] * s["v"][k] * l["lam"]

    def qin(l):
        s = state[l["id"]]
        c = l["lam"] * l["L"] / T
        r1, r0 = float(nxt[l["id"]]["rho"][0]), s["rho"][0]
        return (r1 - r0) * c + qseg(l, 0), c * (abs(r1) + abs(r0)) + abs(qseg(l, 0))

    def qorig(o):
        if o["kind"] == "ideal":
            l = S.out_links(sp, o["node"])[0]
            v = qseg(l, 0) if qo_rep is None else qo_rep[o["id"]]
            return v, abs(v)
        if qo_rep is not None:
            return qo_rep[o["id"]], abs(qo_rep[o["id"]])
        s = state[o["id"]]
        w1, w0, d = float(nxt[o["id"]]["w"][0]), s["w"][0], s["d"][0]
        return d - (w1 - w0) / T, abs(d) + (abs(w1) + abs(w0)) / T

    # --- per node
    for n in sp["nodes"]:
        ins, outs = S.in_links(sp, n["id"]), S.out_links(sp, n["id"])
        if not outs:
            continue
        o = S.origin_at(sp, n["id"])
        lhs = sc = 0.0
        for l in outs:
            v, s_ = qin(l)
            lhs += v
            sc += s_
        rhs = 0.0
        for l in ins:
            v = qseg(l, l["N"] - 1)
            rhs += v
            sc += abs(v)
        if o is not None:
            v, s_ = qorig(o)
            rhs += v
            sc += s_
        if not (abs(lhs) < float("inf") and abs(rhs) < float("inf")):
            finite = False
            continue
        if abs(lhs - rhs) > RTOL * sc + 1e-12:
            ctx.fail(
                f"{eng}:node:in{_deg(len(ins))}out{_deg(len(outs))}:{o['kind'] if o else '-'}",
                f"{eng}: node {n['id']}: flow into leaving links {lhs!r} != entering last-segment flows + origin flow {rhs!r} (scale {sc!r})",
            )
    # --- network-wide
    dn = sc = 0.0
    for l in sp["links"]:
        s = state[l["id"]]
        for k in range(l["N"]):
            r1 = float(nxt[l["id"]]["rho"][k])
            dn += (r1 - s["rho"][k]) * l["lam"] * l["L"]
            sc += (abs(r1) + abs(s["rho"][k])) * l["lam"] * l["L"]
    ext = 0.0
    for o in sp["origins"]:
        if o["kind"] == "ideal":
            v, _ = qorig(o)
            ext += T * v
            sc += abs(T * v)
        else:
            s = state[o["id"]]
            w1 = float(nxt[o["id"]]["w"][0])
            dn += w1 - s["w"][0]
            sc += abs(w1) + abs(s["w"][0])
            ext += T * s["d"][0]
            sc += abs(T * s["d"][0])
    for d in sp["dests"]:
        for l in S.in_links(sp, d["node"]):
            v = qseg(l, l["N"] - 1)
            ext -= T * v
            sc += abs(T * v)
    if not (abs(dn) < float("inf") and abs(ext) < float("inf")):
        finite = False
    elif abs(dn - ext) > RTOL * sc + 1e-12:
        ctx.fail(f"{eng}:network", f"{eng}: change of vehicle count {dn!r} != T*(external inflow - outflow) {ext!r} (scale {sc!r})")
    # --- queue update must use the reported origin flow
    if qo_rep is not None:
        for o in sp["origins"]:
            if o["kind"] == "ideal":
                continue
            s = state[o["id"]]
            w1 = float(nxt[o["id"]]["w"][0])
            exp = s["w"][0] + T * (s["d"][0] - qo_rep[o["id"]])
            sc = abs(s["w"][0]) + T * (abs(s["d"][0]) + abs(qo_rep[o["id"]]))
            if abs(w1 - exp) > RTOL * sc + 1e-12:
                ctx.fail(f"{eng}:queue:{o['kind']}", f"{eng}: w+ of {o['id']} = {w1!r} but w + T(d - q_o) = {exp!r}")
    return finite


def rollout(ctx, sp, state, nxt, built):
    """Simulation loop: the next_states objects are fed back as initial conditions of a second step on the
    same objects; the balance of that second step is checked against copies of the values taken before."""
    import math

    from lib.sut import NumpyEngine, np

    state2 = {i: {v: list(x) for v, x in s_.items()} for i, s_ in state.items()}
    for i, vs in nxt.items():
        for var, arr in vs.items():
            state2[i][var] = [float(x) for x in arr]
    if not all(math.isfinite(x) for i in nxt for arr in state2[i].values() for x in arr if not math.isinf(x)):
        return
    ctx.label("rollout")
    net, els, _ = built
    ic = {}
    for i, el in els.items():
        d = {}
        if el.next_states:
            d.update(el.next_states)
        for grp in (el.actions, el.disturbances):
            if grp:
                d.update(grp)
        if d:
            ic[el] = d
    r = guarded(ctx, "numpy-rollout", lambda: net.step(init_conditions=ic, engine=NumpyEngine(), **S.pars_kwargs(sp)))
    if crashed(r):
        return
    got2 = {i: {k: np.asarray(v, dtype=float).reshape(-1) for k, v in el.next_states.items()} for i, el in els.items() if el.next_states}
    balance(ctx, sp, state2, got2, "numpy-rollout")


def int_arrays(ctx, sp, state):
    """The same balance with integer-dtype user arrays (integer-valued state)."""
    import math

    from lib.sut import NumpyEngine, np

    if not all(math.isfinite(x) for s_ in state.values() for v in s_.values() for x in v):
        return
    st_i = {i: {k: [float(int(x)) for x in v] for k, v in s_.items()} for i, s_ in state.items()}
    if S.singular(sp, st_i):
        return
    net, els, _ = S.build(sp)
    ic = {els[i]: {k: np.array([int(x) for x in v], dtype=np.int64) for k, v in s_.items()} for i, s_ in st_i.items()}
    r = guarded(ctx, "numpy-int-step", lambda: net.step(init_conditions=ic, engine=NumpyEngine(), **S.pars_kwargs(sp)))
    if crashed(r):
        return
    ctx.label("int-arrays")
    got = {i: {k: np.asarray(v, dtype=float).reshape(-1) for k, v in el.next_states.items()} for i, el in els.items() if el.next_states}
    balance(ctx, sp, st_i, got, "numpy-int")


def check_case(case, ctx):
    sp = case["spec"]
    feats = S.features(sp)
    ctx.label(*feats)
    built = guarded(ctx, "build", S.build, sp)
    if crashed(built):
        return
    comp = case.get("compile")
    F = lay = None
    if comp:
        ctx.label("engine:" + comp["sym"], f"compact:{comp['compact']}")
        r = guarded(ctx, "compile", cas.compile_net, sp, comp["sym"], comp["compact"], True)
        if not crashed(r):
            F, net, els = r
            lay = layout.Layout(sp, layout.element_order(net, els))
    finite = True
    for state in case["states"]:
        got = guarded(ctx, "numpy-step", S.step_numpy, sp, state, None, None, built)
        if not crashed(got):
            finite &= balance(ctx, sp, state, got[0], "numpy")
            if case.get("rollout") and state is case["states"][-1]:
                rollout(ctx, sp, state, got[0], built)
            elif state is case["states"][0]:
                int_arrays(ctx, sp, state)
        if F is not None:
            def call():
                res = F(*lay.args(comp["compact"], state))
                return lay.parse(comp["compact"], list(res) if isinstance(res, (list, tuple)) else [res], True)
            r = guarded(ctx, "call", call)
            if not crashed(r):
                nxt, q, qo = r
                finite &= balance(ctx, sp, state, nxt, "casadi", q, qo)
    if finite and (feats & {"merge", "bifurcation"}):
        ctx.nontrivial = True
