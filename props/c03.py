"""C03 - the compiled CasADi function computes the same step as the NumPy engine.

Differential: twin network (fresh objects from the same spec) stepped on the NumPy engine from the
same numbers; compiled outputs are mapped back to elements through the independent layout model.
"""
import math

from hypothesis import strategies as st

from lib import cas, gen_nets, layout, refmodel
from lib import spec as S
from lib.harness import crashed, guarded
from lib.sut import cs, np

ID = "C03"
RULE = (
    "case = valid growth-grammar network (1/10 with a chain of 14-25 extra links, 1/12 a 3-5-way merge star with distinct / clashing / entry-colliding names) x symbol type {SX,MX} x compact {-1,0,1,2,3} x more_out x subset of positivity "
    "options x optional symbolic parameters (link rho_crit/v_free/a, ramp C, model tau/eta/kappa/delta/T) x 2 "
    "admissible states. Oracle: NumPy step of a twin network. Non-trivial = >=2 links and >=1 origin with a queue "
    "and all compared outputs finite. Distinct = SHA-1 of the case."
)
BUDGET = {"quick": {"examples": 250, "shards": 4}, "thorough": {"fuzz_runs": 3000, "examples": 2500, "shards": 16}}
EXPECTED_LABELS = ("int-twin", "same-names", "engine:SX", "engine:MX", "compact:-1", "compact:0", "compact:1", "compact:2", "compact:3", "more_out", "sympars", "opts",
                   "merge", "bifurcation", "interior-ramp", "origin:main", "vsl:empty", "vsl:some")
ASSUMPTIONS = ["outputs mapped through lib/layout.py", "tolerance 1e-9 x scale (|a|+|b| of the compared entries and of the inputs of the element)"]


@st.composite
def sympar_choice(draw, sp):
    """Which parameters become symbols: list of [element id or '$model', parameter name]."""
    cands = []
    for l in sp["links"]:
        cands += [[l["id"], "rho_crit"], [l["id"], "v_free"], [l["id"], "a"]]
    for o in sp["origins"]:
        if o["kind"] in S.RAMP_KINDS:
            cands.append([o["id"], "C"])
    for k in ("tau", "eta", "kappa", "T"):
        cands.append(["$model", k])
    if sp["pars"].get("delta") is not None:
        cands.append(["$model", "delta"])
    if sp["pars"].get("phi") is not None:
        cands.append(["$model", "phi"])
    n = draw(st.integers(1, min(6, len(cands))))
    idx = draw(st.lists(st.integers(0, len(cands) - 1), min_size=n, max_size=n, unique=True))
    chosen = [cands[i] for i in idx]
    if len(sp["links"]) >= 2 and draw(st.integers(0, 3)) == 0:
        # one vector-valued symbol declared once, its k-th entry given to the k-th link
        pname = draw(st.sampled_from(["rho_crit", "v_free", "a"]))
        chosen = [c for c in chosen if c[1] != pname] + [["$vector", pname]]
    return list(draw(st.permutations(chosen)))


@st.composite
def cases(draw):
    sp = draw(gen_nets.merge_stars()) if draw(st.integers(0, 11)) == 0 else draw(gen_nets.specs(big=10))
    states = [draw(gen_nets.states(sp)) for _ in range(2)]
    opts = draw(st.one_of(st.just([]), st.lists(st.sampled_from(S.OPT_NAMES), unique=True, max_size=6).map(sorted)))
    sympars = draw(st.one_of(st.none(), sympar_choice(sp)))
    return {
        "spec": sp,
        "states": states,
        "sym": draw(st.sampled_from(["SX", "MX"])),
        "compact": draw(st.integers(-1, 3)),
        "more_out": draw(st.booleans()),
        "opts": opts,
        "sympars": sympars,
        "int_twin": draw(st.integers(0, 3)) == 0,
        "same_names": draw(st.integers(0, 3)) == 0,
    }


def strategy(tier):
    return cases()


def make_symbolic(sp, sym, sympars):
    """Returns (overrides, par_overrides, parameters dict in declared order, values dict)."""
    XX = getattr(cs, sym)
    overrides, par_over, parameters, values = {}, {}, {}, {}
    links = {l["id"]: l for l in sp["links"]}
    origins = {o["id"]: o for o in sp["origins"]}
    used_keys = set()
    for k, (eid, pname) in enumerate(sympars or []):
        if eid == "$vector":
            key = pname if pname not in used_keys else f"{pname}_vec"
            used_keys.add(pname)
            vec = XX.sym(key, len(sp["links"]), 1)
            for j, l in enumerate(sp["links"]):
                overrides.setdefault(l["id"], {})[pname] = vec[j]
            values[key] = [l[pname] for l in sp["links"]]
            parameters[key] = vec
            continue
        if eid == "$model":
            # the model parameter's own name (as users and the repository's tests do) or another key
            key = pname if k % 2 == 0 else f"p{k}_{pname}"
            s = XX.sym(key)
            par_over[pname] = s
            values[key] = sp["pars"][pname]
        else:
            # natural keys: the attribute name itself for the first element, attribute_element afterwards
            key = pname if pname not in used_keys else f"{pname}_{eid}"
            used_keys.add(pname)
            s = XX.sym(key)
            overrides.setdefault(eid, {})[pname] = s
            values[key] = (links.get(eid) or origins.get(eid))[pname]
        parameters[key] = s
    return overrides, par_over, parameters, values


def compile_case(case):
    sp = case["spec"]
    overrides, par_over, parameters, values = make_symbolic(sp, case["sym"], case.get("sympars"))
    params = [(k, v.numel()) for k, v in parameters.items()]  # declared order, taken before the library sees the dictionary
    init = None
    if case.get("same_names"):
        # the caller supplies its own symbols for every variable, all carrying the same name
        byel = {}
        for (i, var), n in cas.var_sizes(sp).items():
            byel.setdefault(i, []).append(var)
        init = [["$same-names", []]] + [[i, vs] for i, vs in byel.items() if _has_vars(sp, i, vs)]
        init = [[i, [v for v in vs if _var_ok(sp, i, v)]] for i, vs in init]
        init = [e for e in init if e[0] == "$same-names" or e[1]]
    F, net, els = cas.compile_net(
        sp, case["sym"], case["compact"], case["more_out"], case["opts"], overrides, par_over, parameters or None, None, init
    )
    lay = layout.Layout(sp, layout.element_order(net, els))
    return F, lay, params, values


def _var_ok(sp, i, var):
    if i.startswith("L"):
        return True
    if i.startswith("O"):
        k = next(o for o in sp["origins"] if o["id"] == i)["kind"]
        return var in {"main": ("w", "d", "v_ctrl"), "ramp_in": ("w", "d", "r"), "ramp_out": ("w", "d", "r"),
                       "simp_lim": ("w", "d", "q"), "simp_unl": ("w", "d", "q")}.get(k, ())
    return next(x for x in sp["dests"] if x["id"] == i)["kind"] == "cong"


def _has_vars(sp, i, vs):
    return any(_var_ok(sp, i, v) for v in vs)


def call(F, lay, compact, state, params, values, more_out):
    level = min(max(compact, 0), 2)  # documented: <=0 no aggregation, 1 per variable, >1 x/u/d
    res = F(*lay.args(level, state, params, values))
    res = list(res) if isinstance(res, (list, tuple)) else [res]
    return lay.parse(level, res, more_out)


def kind_of(sp, i):
    if i.startswith("L"):
        return "link"
    for o in sp["origins"]:
        if o["id"] == i:
            return o["kind"]
    return "?"


def compare_next(ctx, sp, tag, a, b, state, rtol=1e-9, sigpre=""):
    """a (under test) vs b (oracle): {id: {var: arr}}; returns True if all finite."""
    bad, finite = refmodel.compare_pair(a, b, refmodel.scales(sp, state), rtol)
    for (i, var, k, x, y, sc, why) in bad:
        ctx.fail(f"{sigpre}{tag}:{why}:{var}:{kind_of(sp, i)}", f"{tag}: {var}+ of {i}[{k}] = {x!r}, oracle {y!r} (scale {sc!r})")
    return finite


def int_twin(ctx, case, F, lay, params, values, state):
    """Integer-valued state: the NumPy twin is given integer-dtype arrays, the function the same numbers."""
    sp = case["spec"]
    if not all(math.isfinite(x) for s_ in state.values() for v in s_.values() for x in v):
        return
    st_i = {i: {k: [float(int(x)) for x in v] for k, v in s_.items()} for i, s_ in state.items()}
    if S.singular(sp, st_i):
        return
    net, els, _ = S.build(sp)
    ic = {els[i]: {k: np.array([int(x) for x in v], dtype=np.int64) for k, v in s_.items()} for i, s_ in st_i.items()}
    from lib.sut import NumpyEngine

    r = guarded(ctx, "numpy-int-step", lambda: net.step(init_conditions=ic, engine=NumpyEngine(), **S.pars_kwargs(sp)))
    got = guarded(ctx, "call", call, F, lay, case["compact"], st_i, params, values, case["more_out"])
    if crashed(r) or crashed(got):
        return
    ctx.label("int-twin")
    twin = {i: {k: np.asarray(v, dtype=float).reshape(-1) for k, v in el.next_states.items()} for i, el in els.items() if el.next_states}
    compare_next(ctx, sp, case["sym"], got[0], twin, st_i, sigpre="int-arrays:")


def check_case(case, ctx):
    sp = case["spec"]
    feats = S.features(sp)
    ctx.label(*feats)
    ctx.label("engine:" + case["sym"], f"compact:{case['compact']}")
    if case["more_out"]:
        ctx.label("more_out")
    if case.get("sympars"):
        ctx.label("sympars")
    if case.get("same_names"):
        ctx.label("same-names")
    if case["opts"]:
        ctx.label("opts")
    r = guarded(ctx, "compile", compile_case, case)
    if crashed(r):
        return
    F, lay, params, values = r
    if F.get_free():
        ctx.fail("free-symbols", f"function has free symbols {F.get_free()}")
    finite = True
    for state in case["states"]:
        twin = guarded(ctx, "numpy-step", S.step_numpy, sp, state, case["opts"])
        got = guarded(ctx, "call", call, F, lay, case["compact"], state, params, values, case["more_out"])
        if crashed(twin) or crashed(got):
            continue
        finite &= compare_next(ctx, sp, case["sym"], got[0], twin[0], state)
        if case.get("int_twin") and state is case["states"][0] and not case["opts"]:
            int_twin(ctx, case, F, lay, params, values, state)
    queued = [o for o in sp["origins"] if o["kind"] != "ideal"]
    if finite and len(sp["links"]) >= 2 and queued:
        ctx.nontrivial = True
