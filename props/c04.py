"""C04 - function arguments/results follow the network's element order at every level.

Oracle: independent layout model (lib/layout.py) for names/sizes/order; symbol accounting; numeric
successor check with element-distinct inputs against a NumPy twin; the three levels related by the
documented concatenation; positional feed-back of results into the state arguments.
"""
import math

from hypothesis import strategies as st

from lib import cas, gen_nets, layout, refmodel
from lib import spec as S
from lib.harness import crashed, guarded
from lib.sut import cs, np
from props import c03

ID = "C04"
RULE = (
    "case = valid growth-grammar network (>=3 growth steps, VSL probability 1/2, drawn element names that do not "
    "sort like the ids) x symbol type x more_out x positivity-init options x optional symbolic parameters x one "
    "state with pairwise distinct entries x variables optionally supplied as caller-held symbols in a drawn subset and key order; all three compactness levels plus one out-of-range level (-2,-1,3,5: documented as <=0 / >1) are compiled for every case. "
    "Non-trivial = >=2 links and (>=2 queued origins or >=2 VSL links). Distinct = SHA-1 of the case."
)
RULE += ' In 1/8 of the cases one link is replaced by a chain of 14-25 short links (more than 16 elements of one kind).'
BUDGET = {"quick": {"examples": 120, "shards": 4}, "thorough": {"fuzz_runs": 3000, "examples": 2000, "shards": 16}}
EXPECTED_LABELS = ("caller-symbols", "engine:SX", "engine:MX", "more_out", "sympars", "opts", "feedback", "vsl:empty", "origin:ideal",
                   "dest:cong", "origin:main", "origin:simp_lim")
ASSUMPTIONS = ["element enumeration order = list(net.elements) (taken as given by the property)",
               "layout model lib/layout.py states the documented concatenation"]


@st.composite
def cases(draw):
    sp = draw(gen_nets.specs(min_ops=3, vsl_prob=2, names="drawn", big=8))
    state = draw(gen_nets.distinct_states(sp))
    opts = draw(st.one_of(st.just([]), st.lists(st.sampled_from(S.OPT_NAMES[:3]), unique=True, max_size=3).map(sorted)))
    sympars = draw(st.one_of(st.none(), c03.sympar_choice(sp)))
    return {"spec": sp, "state": state, "sym": draw(st.sampled_from(["SX", "MX"])), "more_out": draw(st.booleans()),
            "opts": opts, "sympars": sympars, "extra_compact": draw(st.sampled_from([-1, -2, 3, 5])), "init": draw(held_symbols(sp))}


@st.composite
def held_symbols(draw, sp):
    """Which variables are supplied by the caller as its own symbols, and in which key order
    (None = all engine-created): [[element id, [variable names in the order the caller lists them]], ...]."""
    if draw(st.integers(0, 2)) == 0:
        return None
    out = []
    for i, var_n in _by_element(sp).items():
        if draw(st.booleans()):
            vars_ = [v for v in var_n if draw(st.integers(0, 3)) > 0]
            # a disturbance may be supplied as an expression (1.2 * symbol) of the caller's fresh symbol: the
            # function's argument is then that symbol
            vars_ = [(v + "*1.2") if (v == "d" and draw(st.integers(0, 2)) == 0) else v for v in vars_]
            if vars_:
                out.append([i, list(draw(st.permutations(vars_)))])
    out = list(draw(st.permutations(out)))
    if out and draw(st.integers(0, 2)) == 0:
        out.insert(0, ["$same-names", []])  # the caller's symbols all carry the same name
    return out or None


def _by_element(sp):
    d = {}
    for (i, var), n in cas.var_sizes(sp).items():
        ok = True
        if i.startswith("O"):
            k = next(o for o in sp["origins"] if o["id"] == i)["kind"]
            ok = var in {"main": ("w", "d", "v_ctrl"), "ramp_in": ("w", "d", "r"), "ramp_out": ("w", "d", "r"), "simp_lim": ("w", "d", "q"), "simp_unl": ("w", "d", "q")}.get(k, ())
        if i.startswith("D"):
            ok = next(x for x in sp["dests"] if x["id"] == i)["kind"] == "cong"
        if ok:
            d.setdefault(i, []).append(var)
    return d


def strategy(tier):
    return cases()


def net_symbols(net, parameters):
    """Names and total scalar count of the independent symbols held by the network's elements."""
    names, count = [], 0
    for grp in (net.states, net.actions, net.disturbances):
        for el, vars_ in grp.items():
            for v in vars_.values():
                if isinstance(v, (cs.SX, cs.MX)):
                    for s in cs.symvar(v):
                        names.append(s.name())
                        count += s.numel()
    for par in parameters.values():
        for s in cs.symvar(par):  # a declared parameter may be vector-valued
            names.append(s.name())
            count += s.numel()
    return names, count


def check_case(case, ctx):
    sp, state, sym, more_out = case["spec"], case["state"], case["sym"], case["more_out"]
    feats = S.features(sp)
    ctx.label(*feats)
    ctx.label("engine:" + sym)
    if more_out:
        ctx.label("more_out")
    if case.get("sympars"):
        ctx.label("sympars")
    if case["opts"]:
        ctx.label("opts")
    parsed = {}
    raw_results = {}
    fstate = state  # what the function is fed with
    scaled = [(i, v[:-4]) for i, vs in (case.get("init") or []) if i != "$same-names" for v in vs if v.endswith("*1.2")]
    if scaled:
        ctx.label("expression-of-symbol")
        state = {i: {k: list(v) for k, v in s_.items()} for i, s_ in state.items()}
        for i, v in scaled:
            state[i][v] = [1.2 * x for x in state[i][v]]  # what the model sees
    twin = guarded(ctx, "numpy-step", S.step_numpy, sp, state, case["opts"])
    if crashed(twin):
        return
    scales = refmodel.scales(sp, state)
    for compact in (0, 1, 2, case.get("extra_compact", -1)):
        level = min(max(compact, 0), 2)  # documented: <=0 no aggregation, 1 per variable, >1 x/u/d
        extra = compact not in (0, 1, 2)
        overrides, par_over, parameters, values = c03.make_symbolic(sp, sym, case.get("sympars"))
        params = [(k, v.numel()) for k, v in parameters.items()]
        if case.get("init"):
            ctx.label("caller-symbols")
        r = guarded(ctx, "compile", cas.compile_net, sp, sym, compact, more_out, case["opts"], overrides, par_over, parameters or None, None, case.get("init"))
        if crashed(r):
            return
        F, net, els = r
        lay = layout.Layout(sp, layout.element_order(net, els))
        exp_in, exp_out = lay.inputs(level, params), lay.outputs(level, more_out)
        # (i) names, sizes, order
        if [n for n, _ in exp_in] != F.name_in():
            ctx.fail(f"names-in:level{compact}", f"compact {compact}: argument names {F.name_in()} != expected {[n for n, _ in exp_in]}")
            return
        if [n for n, _ in exp_out] != F.name_out():
            ctx.fail(f"names-out:level{compact}", f"compact {compact}: result names {F.name_out()} != expected {[n for n, _ in exp_out]}")
            return
        got_in = [F.size1_in(k) * F.size2_in(k) for k in range(F.n_in())]
        got_out = [F.size1_out(k) * F.size2_out(k) for k in range(F.n_out())]
        if lay.sizes(exp_in) != got_in:
            ctx.fail(f"sizes-in:level{compact}", f"level {level}: argument sizes {got_in} != expected {lay.sizes(exp_in)} for {F.name_in()}")
            return
        if lay.sizes(exp_out) != got_out:
            ctx.fail(f"sizes-out:level{compact}", f"level {level}: result sizes {got_out} != expected {lay.sizes(exp_out)} for {F.name_out()}")
            return
        # (ii) symbols: none free, every independent symbol exactly once
        if F.get_free():
            ctx.fail(f"free:level{level}", f"level {level}: free symbols {F.get_free()}")
        ins = F.sx_in() if sym == "SX" else F.mx_in()
        arg_syms = [s for a in ins for s in cs.symvar(a)]
        arg_names = sorted(s.name() for s in arg_syms)
        arg_count = sum(s.numel() for s in arg_syms)
        net_names, net_count = net_symbols(net, parameters)
        if sorted(net_names) != arg_names or net_count != arg_count or arg_count != sum(got_in):
            ctx.fail(f"symbols:level{level}", f"level {level}: argument symbols {arg_names} ({arg_count} scalars, sizes sum {sum(got_in)}) != network symbols {sorted(net_names)} ({net_count})")
        # (iii) result k is the successor of state argument k
        n_state_args = sum(1 for _n, items in exp_in if items and items[0][0] != "$p" and items[0][1] in ("rho", "v", "w") and _n not in ("u", "d"))
        if level >= 2:
            n_state_args = 1
        names_in, names_out = F.name_in(), F.name_out()
        for k in range(n_state_args):
            if names_out[k] != names_in[k] + "+" or got_out[k] != got_in[k]:
                ctx.fail(f"successor:level{level}", f"level {level}: result {k} {names_out[k]!r}[{got_out[k]}] is not the successor of argument {k} {names_in[k]!r}[{got_in[k]}]")
        def call():
            res = F(*lay.args(level, fstate, params, values))
            res = list(res) if isinstance(res, (list, tuple)) else [res]
            return res, lay.parse(level, res, more_out)
        r = guarded(ctx, "call", call)
        if crashed(r):
            return
        res, (nxt, q, qo) = r
        if not extra:
            raw_results[level] = res
            parsed[level] = (nxt, q, qo)
        bad, _fin = refmodel.compare_pair(nxt, twin[0], scales)
        for (i, var, k, x, y, sc, why) in bad:
            ctx.fail(f"value:level{level}:{why}:{var}", f"level {level}: {var}+ of {i}[{k}] = {x!r} but the NumPy twin of that element gives {y!r}")
        # (v) positional feed-back: result k -> argument k for the state arguments
        x1 = nxt
        usable = all(math.isfinite(float(v)) and float(v) >= 0 for vs in x1.values() for a in vs.values() for v in a)
        if usable and not case["opts"]:
            ctx.label("feedback")
            args = lay.args(level, fstate, params, values)
            for k in range(n_state_args):
                args[k] = res[k]
            def call2():
                r2 = F(*args)
                r2 = list(r2) if isinstance(r2, (list, tuple)) else [r2]
                return lay.parse(level, r2, more_out)
            r2 = guarded(ctx, "call-feedback", call2)
            if not crashed(r2):
                state2 = {i: dict(s) for i, s in state.items()}
                for i, vs in x1.items():
                    for var, a in vs.items():
                        state2[i][var] = [float(v) for v in a]
                twin2 = guarded(ctx, "numpy-step2", S.step_numpy, sp, state2)
                if not crashed(twin2) and not S.singular(sp, state2):
                    bad, _ = refmodel.compare_pair(r2[0], twin2[0], refmodel.scales(sp, state2))
                    for (i, var, k, x, y, sc, why) in bad:
                        ctx.fail(f"feedback:level{level}:{why}:{var}", f"level {level}: feeding results back: {var}+ of {i}[{k}] = {x!r}, NumPy second step {y!r}")
    # (iv) the three levels are the same function up to the documented concatenation
    for level in (1, 2):
        for part, name in ((0, "next"), (1, "q"), (2, "q_o")):
            a, b = parsed[0][part], parsed[level][part]
            if part == 0:
                bad, _ = refmodel.compare_pair(b, a, scales, rtol=1e-12)
                for (i, var, k, x, y, sc, why) in bad:
                    ctx.fail(f"levels:{level}:{why}:{var}", f"level {level} vs level 0: {var}+ of {i}[{k}]: {x!r} vs {y!r}")
            else:
                for i in a:
                    x, y = np.atleast_1d(a[i]), np.atleast_1d(b.get(i, np.nan))
                    if x.shape != y.shape or not np.allclose(x, y, rtol=1e-12, atol=1e-12, equal_nan=True):
                        ctx.fail(f"levels:{level}:{name}", f"level {level} vs level 0: {name} of {i}: {y!r} vs {x!r}")
    queued = [o for o in sp["origins"] if o["kind"] != "ideal"]
    nvsl = sum(1 for l in sp["links"] if l.get("vsl") is not None)
    if len(sp["links"]) >= 2 and (len(queued) >= 2 or nvsl >= 2):
        ctx.nontrivial = True
