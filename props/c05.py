"""C05 - extra flow outputs are the flows the state update actually used.

All quantities are the function's own inputs and outputs (no reference model):
  q_<link>  = rho * v * lanes of the input segments,
  w+        = w + T (d - q_o)                         for every queued origin,
  rho+[0]   = rho[0] + T/(lam L) (sum entering q_last + q_o - q[0])   for the link fed by the origin.
"""
from hypothesis import strategies as st

from lib import cas, gen_nets, layout, refmodel
from lib import spec as S
from lib.harness import crashed, guarded
from lib.sut import cs
from props.c01 import _deg

ID = "C05"
RULE = (
    "case = valid growth-grammar network (origins biased to queued kinds, >=2 growth steps) x symbol type x compact "
    "level in -1..3 x T as number or declared symbolic parameter, or a drawn subset of link/ramp/model parameters declared under their natural keys (rho_crit, a, C, tau, ...) x 2 admissible states, more_out=True. "
    "Non-trivial = >=1 queued origin whose flow is not demand-limited in some state (reference-model branch label) "
    "and >=1 interior ramp, outputs finite. Distinct = SHA-1 of the case."
)
BUDGET = {"quick": {"examples": 250, "shards": 4}, "thorough": {"fuzz_runs": 3000, "examples": 2500, "shards": 16}}
EXPECTED_LABELS = ("sympars", "engine:SX", "engine:MX", "compact:-1", "compact:0", "compact:1", "compact:2", "compact:3", "T:symbolic",
                   "interior-ramp", "origin:ideal", "origin:main", "origin:ramp_in", "origin:ramp_out", "origin:simp_lim",
                   "origin:simp_unl", "merge")
ASSUMPTIONS = ["tolerance 1e-9 x sum of absolute terms; link flow compared at 1e-12 relative"]
NOT_DEMAND = {"main:speed-limited", "main:capacity-limited", "ramp:space", "ramp:capacity", "ramp:rate", "simp:desired", "simp:space/capacity"}


@st.composite
def cases(draw):
    sp = draw(gen_nets.specs(min_ops=2))
    states = [draw(gen_nets.states(sp)) for _ in range(2)]
    from props import c03

    return {"spec": sp, "states": states, "sym": draw(st.sampled_from(["SX", "MX"])),
            "compact": draw(st.integers(-1, 3)), "T_symbolic": draw(st.sampled_from([None, None, "T", "Tsamp"])),
            "sympars": draw(st.one_of(st.none(), st.none(), c03.sympar_choice(sp)))}


def strategy(tier):
    return cases()


def check_case(case, ctx):
    sp, sym, compact = case["spec"], case["sym"], case["compact"]
    level = min(max(compact, 0), 2)
    feats = S.features(sp)
    ctx.label(*feats)
    ctx.label("engine:" + sym, f"compact:{compact}")
    par_over, parameters, values, overrides = {}, None, {}, None
    if case.get("sympars"):
        from props import c03

        ctx.label("sympars")
        overrides, par_over, parameters, values = c03.make_symbolic(sp, sym, case["sympars"])
    elif case.get("T_symbolic"):
        ctx.label("T:symbolic")
        key = case["T_symbolic"]
        Ts = getattr(cs, sym).sym(key)
        par_over, parameters, values = {"T": Ts}, {key: Ts}, {key: sp["pars"]["T"]}
    params = [(k, v.numel()) for k, v in (parameters or {}).items()]
    r = guarded(ctx, "compile", cas.compile_net, sp, sym, compact, True, (), overrides, par_over, parameters)
    if crashed(r):
        return
    F, net, els = r
    lay = layout.Layout(sp, layout.element_order(net, els))
    T = sp["pars"]["T"]
    finite = True
    notdemand = False
    for state in case["states"]:
        def call():
            res = F(*lay.args(level, state, params, values))
            res = list(res) if isinstance(res, (list, tuple)) else [res]
            return lay.parse(level, res, True)
        r = guarded(ctx, "call", call)
        if crashed(r):
            continue
        nxt, q, qo = r
        _ref, _qo, labels = refmodel.ref_step(sp, state)
        notdemand |= bool(labels & NOT_DEMAND)
        # link flows
        for l in sp["links"]:
            s = state[l["id"]]
            for k in range(l["N"]):
                exp = s["rho"][k] * s["v"][k] * l["lam"]
                got = float(q[l["id"]][k])
                if not abs(got - exp) <= 1e-12 * abs(exp) + 1e-300:
                    ctx.fail("link-flow", f"q of {l['id']}[{k}] = {got!r} but rho*v*lanes of the input = {exp!r}")
        # origin flows
        for o in sp["origins"]:
            if o["id"] not in qo:
                ctx.fail("origin-flow-missing", f"no q_o reported for {o['id']}")
                continue
            qv = qo[o["id"]]
            if qv != qv or abs(qv) == float("inf"):
                finite = False
                continue
            l = S.out_links(sp, o["node"])[0]
            ls = state[l["id"]]
            if o["kind"] != "ideal":
                s = state[o["id"]]
                w1 = float(nxt[o["id"]]["w"][0])
                exp = s["w"][0] + T * (s["d"][0] - qv)
                sc = abs(s["w"][0]) + T * (abs(s["d"][0]) + abs(qv))
                if not abs(w1 - exp) <= 1e-9 * sc + 1e-12:
                    ctx.fail(f"queue:{o['kind']}", f"w+ of {o['id']} = {w1!r} but w + T(d - q_o) = {exp!r} with reported q_o = {qv!r}")
            ins = S.in_links(sp, o["node"])
            qin = sum(float(q[li["id"]][-1]) for li in ins)
            q0 = float(q[l["id"]][0])
            c = T / (l["lam"] * l["L"])
            exp = ls["rho"][0] + c * (qin + qv - q0)
            sc = abs(ls["rho"][0]) + c * (sum(abs(float(q[li["id"]][-1])) for li in ins) + abs(qv) + abs(q0))
            got = float(nxt[l["id"]]["rho"][0])
            if not abs(got - exp) <= 1e-9 * sc + 1e-12:
                ctx.fail(f"fed-density:{o['kind']}:in{_deg(len(ins))}",
                         f"rho+[0] of {l['id']} = {got!r} but the balance with the reported q_o of {o['id']} ({qv!r}) gives {exp!r}")
    if finite and notdemand and "interior-ramp" in feats:
        ctx.nontrivial = True
