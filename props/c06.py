"""C06 - validation accepts a network exactly when the nine documented conditions hold.

Oracle: lib/graphmodel.Model.violated (written from the is_valid docstring over a plain-data graph).
Tiers: bounded exhaustive enumeration of graphs built through the public API + random edits of
larger valid networks (Hypothesis).
"""
import itertools
import random

from hypothesis import strategies as st

from lib import gen_nets
from lib import graphmodel as G
from lib.harness import crashed, guarded
from lib.sut import InvalidNetworkError

ID = "C06"
RULE = (
    "enumerated tier: every directed graph (self-loops included) on 1..3 nodes x per-node origin in {none, own "
    "non-ramp, own ramp, one ramp object shared by all such nodes} (palette A: ideal/metered; palette B: "
    "mainstream/simplified, where all distinct elements share the name 'X%d' and node names contain '%s'; both palettes for <=2 nodes) x per-node destination in {none, own, one shared "
    "object} x {all links distinct, first two edges share one link object}; built through add_nodes/add_link/"
    "add_origin/add_destination; is_valid compared with the predicate after the links and at the end, and with "
    "raises=True. quick = all <=2-node cases + 20000 seeded-random 3-node cases; thorough = all of them. "
    "random tier (Hypothesis): valid growth-grammar topologies of up to 9 nodes with 0..3 edits (drop/redirect/add "
    "link, reuse a link/origin/destination object, replace or add origin/destination, isolated node, self-loop), "
    "permuted call order, validation also at drawn intermediate points. Non-trivial = at least one link (random "
    "tier: and more than 3 nodes, so it cannot coincide with an enumerated case). Distinct: enumerated cases are "
    "distinct by construction; random ones by SHA-1."
)
BUDGET = {
    "quick": {"examples": 800, "shards": 4, "enum_shards": 4},
    "thorough": {"fuzz_runs": 3000, "examples": 6000, "shards": 16, "enum_shards": 16},
}
EXHAUSTIVE = {
    "quick": "all graphs on <=2 nodes (every origin kind, shared objects); 3-node graphs sampled",
    "thorough": "all graphs on <=3 nodes (palettes A and B, shared origin/destination/link objects)",
}
EXPECTED_LABELS = ("valid", "invalid") + tuple(f"cond{k}" for k in range(1, 10))
ASSUMPTIONS = ["predicate lib/graphmodel.py states the nine documented conditions; self-loops count as entering and leaving"]

PALETTES = {"A": ("ideal", "ramp"), "B": ("main", "simp")}


def enum_case(n, edge_list, ocodes, dcodes, share, palette, pre_origin=False):
    """ocodes per node: 0 none, 1 own non-ramp, 2 own ramp, 3 shared ramp, (4 own non-ramp', 5 own ramp' for mixed)."""
    nonramp, ramp = PALETTES[palette]
    clash = palette == "B"  # distinct elements sharing one name: still not duplicates
    other = PALETTES["B" if palette == "A" else "A"]
    uni = {"nodes": [(f"N{i}%s" if clash else f"N{i}") for i in range(n)], "links": [], "origins": [], "dests": []}
    ops = [["add_nodes", [f"n{i}" for i in range(n)]]]
    for k, (u, v) in enumerate(edge_list):
        if share and k == 1:
            tok = "l0"
        else:
            tok = f"l{len(uni['links'])}"
            uni["links"].append("X%d" if clash else f"L{len(uni['links'])}")
        ops.append(["add_link", f"n{u}", tok, f"n{v}"])
    mid = len(ops)
    extra_checks = []
    if pre_origin:
        # later attachments replace earlier ones: a throwaway non-ramp origin first, validation, then the real one
        for i, c in enumerate(ocodes):
            if c:
                uni["origins"].append([nonramp, "X%d" if clash else f"T{i}"])
                ops.append(["add_origin", f"o{len(uni['origins']) - 1}", f"n{i}"])
        if len(ops) > mid:
            extra_checks.append(len(ops) - 1)
    shared_o = None
    for i, c in enumerate(ocodes):
        if c == 0:
            continue
        if c == 3:
            if shared_o is None:
                shared_o = f"o{len(uni['origins'])}"
                uni["origins"].append([ramp, "Oshared"])
            tok = shared_o
        else:
            kind = {1: nonramp, 2: ramp, 4: other[0], 5: other[1]}[c]
            tok = f"o{len(uni['origins'])}"
            uni["origins"].append([kind, "X%d" if clash else f"O{i}"])
        ops.append(["add_origin", tok, f"n{i}"])
    shared_d = None
    for i, c in enumerate(dcodes):
        if c == 0:
            continue
        if c == 2:
            if shared_d is None:
                shared_d = f"d{len(uni['dests'])}"
                uni["dests"].append(["free", "Dshared"])
            tok = shared_d
        else:
            tok = f"d{len(uni['dests'])}"
            uni["dests"].append(["cong" if i % 2 else "free", "X%d" if clash else f"D{i}"])
        ops.append(["add_destination", tok, f"n{i}"])
    return {"universe": uni, "ops": ops, "checks": sorted({mid - 1, len(ops) - 1} | set(extra_checks))}


def _space(n, ocode_set):
    pairs = [(u, v) for u in range(n) for v in range(n)]
    for mask in range(1 << len(pairs)):
        edges = [p for k, p in enumerate(pairs) if mask >> k & 1]
        for oc in itertools.product(ocode_set, repeat=n):
            for dc in itertools.product((0, 1, 2), repeat=n):
                for share in ((False, True) if len(edges) >= 2 else (False,)):
                    yield edges, oc, dc, share


def enumerate_cases(tier, seed, shard, nshards):
    idx = 0
    for n in (1, 2):
        for edges, oc, dc, share in _space(n, (0, 1, 2, 3, 4, 5)):
            if idx % nshards == shard:
                yield enum_case(n, edges, oc, dc, share, "AB"[idx // nshards % 2], pre_origin=idx // nshards % 3 == 0)
            idx += 1
    if tier == "thorough":
        for pal in ("A", "B"):
            for edges, oc, dc, share in _space(3, (0, 1, 2, 3)):
                if idx % nshards == shard:
                    yield enum_case(3, edges, oc, dc, share, pal, pre_origin=idx % 5 == 0)
                idx += 1
    else:
        rnd = random.Random(seed * 7919 + shard)
        pairs = [(u, v) for u in range(3) for v in range(3)]
        for _ in range(20000 // nshards):
            mask = rnd.getrandbits(9)
            edges = [p for k, p in enumerate(pairs) if mask >> k & 1]
            oc = tuple(rnd.randrange(6) for _ in range(3))
            dc = tuple(rnd.randrange(3) for _ in range(3))
            share = len(edges) >= 2 and rnd.random() < 0.3
            yield enum_case(3, edges, oc, dc, share, rnd.choice("AB"), pre_origin=rnd.random() < 0.3)


@st.composite
def cases(draw):
    nodes, edges, origin, dest = draw(gen_nets.topologies(max_ops=10))
    idx = {n: i for i, n in enumerate(nodes)}
    E = [[idx[u], idx[v], k] for k, (u, v) in enumerate(edges)]
    nl = len(E)
    okinds = []
    O = []
    for n, role in origin.items():
        kind = draw(st.sampled_from(["ideal", "main", "ramp", "simp"] if role == "src" else ["ramp", "simp"]))
        O.append([len(okinds), idx[n]])
        okinds.append(kind)
    D = [[k, idx[n]] for k, n in enumerate(dest)]
    nd = len(D)
    nn = len(nodes)
    for _ in range(draw(st.integers(0, 3))):
        e = draw(st.sampled_from(["drop", "redirect", "add", "reuse_link", "origin", "reuse_origin", "dest", "reuse_dest", "isolated", "selfloop", "drop_origin", "drop_dest", "replace_origin"]))
        if e == "drop" and E:
            E.pop(draw(st.integers(0, len(E) - 1)))
        elif e == "redirect" and E:
            E[draw(st.integers(0, len(E) - 1))][draw(st.integers(0, 1))] = draw(st.integers(0, nn - 1))
        elif e == "add":
            E.append([draw(st.integers(0, nn - 1)), draw(st.integers(0, nn - 1)), nl])
            nl += 1
        elif e == "reuse_link" and E:
            E.append([draw(st.integers(0, nn - 1)), draw(st.integers(0, nn - 1)), E[draw(st.integers(0, len(E) - 1))][2]])
        elif e == "origin":
            O.append([len(okinds), draw(st.integers(0, nn - 1))])
            okinds.append(draw(st.sampled_from(["ideal", "main", "ramp", "simp"])))
        elif e == "reuse_origin" and O:
            O.append([O[draw(st.integers(0, len(O) - 1))][0], draw(st.integers(0, nn - 1))])
        elif e == "dest":
            D.append([nd, draw(st.integers(0, nn - 1))])
            nd += 1
        elif e == "reuse_dest" and D:
            D.append([D[draw(st.integers(0, len(D) - 1))][0], draw(st.integers(0, nn - 1))])
        elif e == "isolated":
            nn += 1
        elif e == "selfloop":
            k = draw(st.integers(0, nn - 1))
            E.append([k, k, nl])
            nl += 1
        elif e == "replace_origin" and O:
            o_, n_ = O[draw(st.integers(0, len(O) - 1))]
            O.append([len(okinds), n_])  # a second origin on the same node: the later one replaces the earlier
            okinds.append(draw(st.sampled_from(["ideal", "main", "ramp", "simp"])))
        elif e == "drop_origin" and O:
            O.pop(draw(st.integers(0, len(O) - 1)))
        elif e == "drop_dest" and D:
            D.pop(draw(st.integers(0, len(D) - 1)))
    if draw(st.booleans()):
        nm = lambda pre, i: draw(st.sampled_from(["a", "b%s", "50%"]))  # noqa: E731  clashing names, with characters special to formatting
    else:
        nm = lambda pre, i: f"{pre}{i}"  # noqa: E731
    uni = {"nodes": [nm("N", i) for i in range(nn)], "links": [nm("L", i) for i in range(nl)],
           "origins": [[k, nm("O", i)] for i, k in enumerate(okinds)], "dests": [["cong" if i % 2 else "free", nm("D", i)] for i in range(nd)]}
    ops = [["add_link", f"n{u}", f"l{l}", f"n{v}"] for u, v, l in E]
    ops += [["add_origin", f"o{o}", f"n{n}"] for o, n in O] + [["add_destination", f"d{d}", f"n{n}"] for d, n in D]
    ops = list(draw(st.permutations(ops)))
    used = {t for op in ops for t in op[1:] if t.startswith("n")}
    missing = [f"n{i}" for i in range(nn) if f"n{i}" not in used]
    if missing or draw(st.booleans()):
        pre = missing + [t for t in sorted(used) if draw(st.booleans())]
        ops.insert(0, ["add_nodes", pre])
    checks = sorted(set(draw(st.lists(st.integers(0, len(ops) - 1), max_size=2))) | {len(ops) - 1})
    return {"universe": uni, "ops": ops, "checks": checks}


def strategy(tier):
    return cases()


def check_valid(ctx, sim, where):
    bad = sim.model.violated(sim.okind.get)
    exp_valid = not bad
    ctx.label("valid" if exp_valid else "invalid", *[f"cond{k}" for k in bad])
    r = guarded(ctx, "is_valid", sim.net.is_valid, False)
    if crashed(r):
        return
    ok, msgs = r
    conds = ",".join(map(str, sorted(bad)))
    if bool(ok) != exp_valid:
        if exp_valid:
            ctx.fail("rejects-valid", f"{where}: is_valid() = False {msgs!r} but none of the nine conditions is violated")
        else:
            ctx.fail(f"accepts-invalid:{conds}", f"{where}: is_valid() = True but conditions {conds} are violated")
        return
    if ok and msgs:
        ctx.fail("valid-with-messages", f"{where}: valid verdict with messages {msgs!r}")
    if not ok and not msgs:
        ctx.fail("invalid-without-message", f"{where}: invalid verdict without any message")
    flag = (True, 1, True)[len(msgs) % 3] if not ok else True  # any truthy value enables raising
    if isinstance(msgs, list):
        # the returned list belongs to the caller: editing it must not influence the next verdict
        ctx.label("returned-messages-edited")
        if msgs:
            msgs.clear()
        else:
            msgs.append("note of the caller")
    try:
        r2 = sim.net.is_valid(raises=flag)
        raised = None
    except InvalidNetworkError as e:
        r2, raised = None, e
    except Exception as e:  # any other exception type is not the documented one
        ctx.fail("raises-other", f"{where}: is_valid(raises=True) raised {type(e).__name__}: {e}")
        return
    if exp_valid and raised is not None:
        ctx.fail("raises-on-valid", f"{where}: is_valid(raises=True) raised on a valid network: {raised}")
    if not exp_valid and raised is None:
        ctx.fail(f"no-raise:{conds}", f"{where}: is_valid(raises=True) returned {r2!r} although conditions {conds} are violated")
    if exp_valid and raised is None and isinstance(r2, tuple) and r2 and not r2[0]:
        ctx.fail("raises-return", f"{where}: is_valid(raises=True) returned the verdict {r2!r} for a valid network")


def check_case(case, ctx):
    sim = G.Sim(case["universe"])
    checks = set(case["checks"])
    for k, op in enumerate(case["ops"]):
        r = guarded(ctx, op[0], sim.apply, op)
        if crashed(r):
            return
        if k in checks:
            check_valid(ctx, sim, f"after op {k} {op}")
    nlinks = len(sim.model.edges)
    ctx.nontrivial = nlinks >= 1 and (ctx.unique or len(sim.model.nodes) > 3)
