"""C07 - every network accepted by validation can be stepped and compiled on every engine.

Robustness oracle: no exception, shapes preserved, finite outputs for finite admissible inputs
(boundary-heavy: exact zeros), over engines / variable sources / symbol types / compactness levels /
positivity options.  Also generates *nearly valid* networks: whenever the library's own is_valid
accepts a network, the same obligations apply (on the unchanged tree those are rejected and skipped).
"""
import math

from hypothesis import strategies as st

from lib import cas, gen_nets, layout
from lib import spec as S
from lib.harness import crashed, guarded
from lib.sut import CasadiEngine, NumpyEngine, cs, np

ID = "C07"
RULE = (
    "case = growth-grammar network (valid by construction; element names id-like, drawn or clashing; with probability 1/4 one or two edits that break one "
    "documented validity condition) x boundary-heavy finite admissible state (each entry exactly 0 with probability "
    "1/3; model 0/0 excluded by construction) x subset of positivity options x NumPy variable source {user float "
    "arrays, user int arrays, engine 'empty'/'rand'/'randn'/constant} x CasADi {SX,MX} x compact in -1..3 x more_out. "
    "Obligations apply iff the library's is_valid accepts. Non-trivial = accepted by is_valid AND (exact zero in a "
    "speed, a density and a queue, or an ideal origin, or an empty VSL set). Distinct = SHA-1 of the case."
)
BUDGET = {"quick": {"examples": 350, "shards": 4}, "thorough": {"fuzz_runs": 3000, "examples": 4000, "shards": 16}}
EXPECTED_LABELS = ("accepted", "edited", "rejected", "origin:ideal", "vsl:empty", "zero:v", "zero:rho", "zero:w",
                   "numpy:empty", "numpy:rand", "numpy:randn", "numpy:const", "numpy:int", "engine:SX", "engine:MX",
                   "merge", "bifurcation", "interior-ramp", "self-loop", "delta", "phi")
ASSUMPTIONS = ["admissible inputs: finite, non-negative; metering rate in [0,1]; density <= rho_max",
               "engine-created 'empty'/'rand'/'randn' variables: only success and shapes are judged (values are arbitrary)"]

EDITS = ("extra_out_at_origin", "nonramp_interior", "extra_in_at_dest", "out_at_dest", "origin_and_dest", "drop_dest", "drop_origin")


def _newlink(sp, draw, up, down):
    p = draw(gen_nets.link_params())
    k = len(sp["links"])
    sp["links"].append(dict(id=f"L{k}", name=f"L{k}", up=up, down=down, N=draw(st.integers(1, 3)), turnrate=1.0, vsl=None, alpha=None, **p))


def _newnode(sp):
    k = len(sp["nodes"])
    sp["nodes"].append(dict(id=f"n{k}", name=f"n{k}"))
    return f"n{k}"


def apply_edit(sp, e, draw):
    if e == "extra_out_at_origin" and sp["origins"]:
        o = sp["origins"][draw(st.integers(0, len(sp["origins"]) - 1))]
        n = _newnode(sp)
        _newlink(sp, draw, o["node"], n)
        sp["dests"].append(dict(id=f"D{len(sp['dests'])}", node=n, name=f"D{len(sp['dests'])}", kind="free"))
    elif e == "nonramp_interior":
        ints = [o for o in sp["origins"] if S.in_links(sp, o["node"])]
        if ints:
            ints[draw(st.integers(0, len(ints) - 1))]["kind"] = draw(st.sampled_from(["ideal", "main"]))
    elif e == "extra_in_at_dest" and sp["dests"]:
        d = sp["dests"][draw(st.integers(0, len(sp["dests"]) - 1))]
        n = _newnode(sp)
        _newlink(sp, draw, n, d["node"])
        sp["origins"].append(dict(id=f"O{len(sp['origins'])}", node=n, name=f"O{len(sp['origins'])}", kind="ramp_out", C=1500.0))
    elif e == "out_at_dest" and sp["dests"]:
        d = sp["dests"][draw(st.integers(0, len(sp["dests"]) - 1))]
        n = _newnode(sp)
        _newlink(sp, draw, d["node"], n)
        sp["dests"].append(dict(id=f"D{len(sp['dests'])}", node=n, name=f"D{len(sp['dests'])}", kind="free"))
    elif e == "origin_and_dest" and sp["origins"]:
        o = sp["origins"][draw(st.integers(0, len(sp["origins"]) - 1))]
        sp["dests"].append(dict(id=f"D{len(sp['dests'])}", node=o["node"], name=f"D{len(sp['dests'])}", kind="free"))
    elif e == "drop_dest" and sp["dests"]:
        sp["dests"].pop(draw(st.integers(0, len(sp["dests"]) - 1)))
    elif e == "drop_origin" and sp["origins"]:
        sp["origins"].pop(draw(st.integers(0, len(sp["origins"]) - 1)))


@st.composite
def cases(draw):
    sp = draw(gen_nets.specs(with_plan=True, names=draw(st.sampled_from(["mixed", "mixed", "clash"]))))
    edits = []
    if draw(st.integers(0, 3)) == 0:
        edits = draw(st.lists(st.sampled_from(EDITS), min_size=1, max_size=2))
        sp["plan"] = [op for op in sp["plan"] if op[0] in ("read", "trystep")]
        for e in edits:
            apply_edit(sp, e, draw)
    state = draw(gen_nets.states(sp, zero_bias=True, finite_only=True))
    return {
        "spec": sp,
        "edits": edits,
        "state": state,
        "opts": draw(st.lists(st.sampled_from(S.OPT_NAMES), unique=True, max_size=6).map(sorted)),
        "numpy_source": draw(st.sampled_from(["empty", "rand", "randn", "const", "int"])),
        "sym": draw(st.sampled_from(["SX", "MX"])),
        "compact": draw(st.integers(-1, 3)),
        "more_out": draw(st.booleans()),
    }


def strategy(tier):
    return cases()


def shapes_ok(ctx, els, tag):
    for i, el in els.items():
        if el.states is None:
            continue
        if el.next_states is None:
            ctx.fail(f"{tag}:no-next-state", f"{tag}: element {i} has states but no next states after the step")
            continue
        for var, x in el.states.items():
            y = el.next_states.get(var)
            if y is None:
                ctx.fail(f"{tag}:no-next-state", f"{tag}: element {i} has no next state for {var}")
                continue
            sx = tuple(x.shape) if hasattr(x, "shape") else ()
            sy = tuple(y.shape) if hasattr(y, "shape") else ()
            if sx != sy:
                ctx.fail(f"{tag}:shape:{var}", f"{tag}: {var} of {i} has shape {sx} but its next state has shape {sy}")


def all_finite(ctx, vals, tag, what):
    for i, vs in vals.items():
        for var, a in vs.items():
            arr = np.asarray(a, dtype=float)
            if not np.all(np.isfinite(arr)):
                ctx.fail(f"{tag}:nonfinite:{var}", f"{tag}: {what} {var} of {i} = {arr.tolist()} is not finite for finite admissible inputs")


def check_case(case, ctx):
    sp, state = case["spec"], case["state"]
    ctx.label(*S.features(sp))
    if case["edits"]:
        ctx.label("edited", *["edit:" + e for e in case["edits"]])
    built = guarded(ctx, "build", S.build, sp)
    if crashed(built):
        return
    net, els, nodes = built
    v = guarded(ctx, "is_valid", net.is_valid)
    if crashed(v):
        return
    if not v[0]:
        ctx.label("rejected")
        if not case["edits"]:
            raise AssertionError(f"generator produced an invalid network: {v[1]}")
        return
    ctx.label("accepted")
    r = guarded(ctx, "is_valid(raises)", net.is_valid, True)
    if crashed(r):
        return
    pars = S.pars_kwargs(sp)
    opts = S.opts_kwargs(case["opts"])
    zeros = set()
    for i, s in state.items():
        for var in ("rho", "v", "w"):
            if var in s and any(x == 0 for x in s[var]):
                zeros.add("zero:" + var)
    ctx.label(*zeros)
    singular = S.singular(sp, state) if not case["edits"] else True
    # (a) NumPy engine with user float arrays
    r = guarded(ctx, "numpy-arrays-step", lambda: net.step(init_conditions=S.ic_numpy(els, state), engine=NumpyEngine(), **opts, **pars))
    if not crashed(r):
        shapes_ok(ctx, els, "numpy-arrays")
        if not singular:
            all_finite(ctx, {i: el.next_states for i, el in els.items() if el.next_states}, "numpy-arrays", "next")
    # (b) NumPy engine, other variable sources
    src = case["numpy_source"]
    ctx.label("numpy:" + src)
    if src == "int":
        ic = {els[i]: {k: np.array([int(x) for x in vals], dtype=np.int64) for k, vals in s.items()} for i, s in state.items()}
        r = guarded(ctx, "numpy-int-step", lambda: net.step(init_conditions=ic, engine=NumpyEngine(), **opts, **pars))
    else:
        eng = NumpyEngine(0.5 if src == "const" else src)
        r = guarded(ctx, f"numpy-{src}-step", lambda: net.step(engine=eng, **opts, **pars))
    if not crashed(r):
        shapes_ok(ctx, els, "numpy-" + src)
    # (c) CasADi: step, compile, evaluate
    sym, compact, more_out = case["sym"], case["compact"], case["more_out"]
    ctx.label("engine:" + sym, f"compact:{compact}")
    level = min(max(compact, 0), 2)
    r = guarded(ctx, "casadi-compile", cas.compile_net, sp, sym, compact, more_out, case["opts"], None, None, None, built)
    if not crashed(r):
        F = r[0]
        shapes_ok(ctx, els, "casadi")
        lay = layout.Layout(sp, layout.element_order(net, els))
        def call():
            res = F(*lay.args(level, state))
            return lay.parse(level, list(res) if isinstance(res, (list, tuple)) else [res], more_out)
        out = guarded(ctx, "casadi-call", call)
        if not crashed(out) and not singular:
            nxt, q, qo = out
            all_finite(ctx, nxt, f"casadi-{sym}", "next")
            all_finite(ctx, {"flows": {"q": np.concatenate([np.atleast_1d(x) for x in q.values()]) if q else np.zeros(0),
                                        "q_o": np.array(list(qo.values()), dtype=float)}}, f"casadi-{sym}", "flow")
    if zeros >= {"zero:v", "zero:rho", "zero:w"} or "origin:ideal" in ctx.labels or "vsl:empty" in ctx.labels:
        ctx.nontrivial = True
