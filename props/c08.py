"""C08 - name and membership lookups always reflect the current network.

Model-based stateful testing: histories of construction calls interleaved with reads of subsets of
the lookups; after every read each lookup is compared with its recomputation from net.graph.
Exhaustive over short histories on a small universe, random (Hypothesis) beyond.
"""
import itertools

from hypothesis import strategies as st

from lib import graphmodel as G
from lib.harness import crashed, guarded

ID = "C08"
CACHED = ("nodes_by_name", "links_by_name", "nodes_by_link", "origins", "origins_by_name", "origins_by_node",
          "destinations", "destinations_by_name", "destinations_by_node")
LIVE = ("links", "in_links", "out_links(node)", "in_links(node)", "nodes", "links[u,v]")
LOOKUPS = CACHED + LIVE
RULE = (
    "history = list of construction calls (add_node, add_nodes, add_link, add_links, add_origin, add_destination, "
    "add_path with/without origin/destination, incl. replacing the link of an edge or the origin/destination of a "
    "node, a malformed path, and bulk calls that raise after a partial insertion) interleaved with reads of subsets of the 15 lookups. Exhaustive tier: universe of 3 "
    "nodes (two share a name), 2 links, 2 origins, 2 destinations (names partly clashing), 60 concrete mutators; all "
    "mutator histories up to length L (quick L=2, thorough L=3), each under read disciplines: read all after every "
    "step; read all only at the end; read all before the last mutator; read exactly one cached lookup (each of 9) "
    "before the last mutator; then read all. Random tier: Hypothesis op lists of 1..25 over a universe of 5 nodes, 4 "
    "links, 3 origins, 3 destinations with names from a 3-letter alphabet. Non-trivial = some lookup X was read, then "
    "a mutator changed X's ground truth, then X was read again. Distinct: enumerated histories are distinct by "
    "construction, random ones by SHA-1."
)
BUDGET = {
    "quick": {"examples": 600, "shards": 4, "enum_shards": 8},
    "thorough": {"fuzz_runs": 3000, "examples": 5000, "shards": 16, "enum_shards": 16},
}
EXHAUSTIVE = {
    "quick": "all mutator histories of length <=2 over the small universe x 12 read disciplines",
    "thorough": "all mutator histories of length <=3 over the small universe x 12 read disciplines",
}
EXPECTED_LABELS = ("replace-link", "replace-origin", "replace-destination", "shared-origin", "shared-link", "name-clash", "path-raised")
ASSUMPTIONS = ["ground truth = recomputation from net.graph node/edge attributes",
               "where several elements share a name or one object sits on several edges/nodes the property does not fix a winner: key set must be equal and the value must be one of the candidates"]

SMALL = {"nodes": ["A", "B", "A"], "links": ["L", "M"], "origins": [["ideal", "O"], ["ramp", "L"]], "dests": [["free", "D"], ["cong", "O"]]}
BIG = {"nodes": 5, "links": 4, "origins": ["ideal", "ramp", "main"], "dests": ["free", "cong", "free"]}


def small_mutators():
    ms = []
    N = ["n0", "n1", "n2"]
    ms += [["add_node", n] for n in N]
    ms += [["add_nodes", ["n0", "n1"]], ["add_nodes", ["n1", "n2"]], ["add_nodes", ["n2", "n0", "n1"]]]
    ms += [["add_link", u, l, v] for u in N for l in ("l0", "l1") for v in N if not (u == v and l == "l1")]
    ms += [["add_links", [["n0", "l0", "n1"], ["n1", "l1", "n2"]]], ["add_links", [["n0", "l0", "n1"], ["n0", "l1", "n1"]]],
           ["add_links", [["n2", "l1", "n0"]]]]
    ms += [["add_origin", o, n] for o in ("o0", "o1") for n in N]
    ms += [["add_destination", d, n] for d in ("d0", "d1") for n in N]
    for path in (["n0", "l0", "n1"], ["n1", "l1", "n2"], ["n0", "l0", "n1", "l1", "n2"], ["n2", "l0", "n0"]):
        for o in (None, "o0", "o1"):
            for d in (None, "d0"):
                if (o is None) or (d is None) or path[0] == "n0":
                    ms.append(["add_path", path, o, d])
    ms.append(["add_path", ["n0", "l0", "n1", "l1"], None, "d1"])  # malformed: rejected, graph partly built
    ms.append(["add_nodes", ["n2", "$none"]])  # raises after n2 was inserted
    ms.append(["add_link", "n1", "l1", "$none"])  # raises after n1 was inserted
    ms.append(["add_links", [["n0", "l1", "n2"], ["n2"]]])  # raises after the first link was inserted
    return ms


MUTS = small_mutators()
READ_ALL = ["read", list(LOOKUPS)]


def disciplines(muts):
    """Read disciplines for one mutator history."""
    n = len(muts)
    yield [x for m in muts for x in (m, READ_ALL)]
    yield list(muts) + [READ_ALL]
    if n >= 2:
        yield list(muts[:-1]) + [READ_ALL, muts[-1], READ_ALL]
        for X in CACHED:
            yield list(muts[:-1]) + [["read", [X]], muts[-1], READ_ALL]
    else:
        for X in CACHED:
            yield [["read", [X]], muts[0], READ_ALL]


def enumerate_cases(tier, seed, shard, nshards):
    L = 3 if tier == "thorough" else 2
    idx = 0
    for n in range(1, L + 1):
        for combo in itertools.product(range(len(MUTS)), repeat=n):
            if idx % nshards == shard:
                muts = [MUTS[k] for k in combo]
                for ops in disciplines(muts):
                    yield {"universe": SMALL, "ops": ops}
            idx += 1


@st.composite
def cases(draw):
    names = ["a", "b", "c"]
    uni = {
        "nodes": [draw(st.sampled_from(names)) for _ in range(BIG["nodes"])],
        "links": [draw(st.sampled_from(names)) for _ in range(BIG["links"])],
        "origins": [[k, draw(st.sampled_from(names))] for k in BIG["origins"]],
        "dests": [[k, draw(st.sampled_from(names))] for k in BIG["dests"]],
    }
    node = st.sampled_from([f"n{i}" for i in range(BIG["nodes"])])
    link = st.sampled_from([f"l{i}" for i in range(BIG["links"])])
    orig = st.sampled_from([f"o{i}" for i in range(len(BIG["origins"]))])
    dest = st.sampled_from([f"d{i}" for i in range(len(BIG["dests"]))])
    triple = st.tuples(node, link, node).map(list)

    @st.composite
    def path(draw):
        k = draw(st.integers(1, 3))
        p = [draw(node)]
        for _ in range(k):
            p += [draw(link), draw(node)]
        if draw(st.integers(0, 7)) == 0:  # malformed variants
            j = draw(st.integers(0, len(p) - 1))
            p[j] = draw(st.sampled_from(["$none", "$str", "n0", "l0"]))
            if draw(st.booleans()):
                p = p[:-1]
        return p

    op = st.one_of(
        st.tuples(st.just("add_node"), node).map(list),
        st.tuples(st.just("add_nodes"), st.lists(node, min_size=1, max_size=3)).map(list),
        st.tuples(st.just("add_nodes"), st.lists(node, min_size=1, max_size=3), st.sampled_from(["$gen", "$keys", "$view"])).map(list),
        st.tuples(st.just("add_links"), st.lists(triple, min_size=1, max_size=3), st.sampled_from(["$gen", "$keys"])).map(list),
        st.tuples(st.just("add_path"), path(), st.one_of(st.none(), orig), st.one_of(st.none(), dest), st.just("$gen")).map(list),
        st.tuples(st.just("add_link"), node, link, node).map(list),
        st.tuples(st.just("add_links"), st.lists(triple, min_size=1, max_size=3)).map(list),
        st.tuples(st.just("add_origin"), orig, node).map(list),
        st.tuples(st.just("add_destination"), dest, node).map(list),
        st.tuples(st.just("add_path"), path(), st.one_of(st.none(), orig), st.one_of(st.none(), dest)).map(list),
        st.tuples(st.just("add_nodes"), st.tuples(node, st.just("$none")).map(list)).map(list),
        st.tuples(st.just("add_link"), node, link, st.just("$none")).map(list),
        st.tuples(st.just("add_links"), st.tuples(triple, st.tuples(node).map(list)).map(list)).map(list),
        st.tuples(st.just("read"), st.lists(st.sampled_from(LOOKUPS), min_size=1, max_size=4, unique=True)).map(list),
        st.tuples(st.just("read"), st.lists(st.sampled_from(CACHED), min_size=1, max_size=2, unique=True)).map(list),
    )
    ops = draw(st.lists(op, min_size=1, max_size=25))
    if draw(st.integers(0, 2)) == 0:
        uni = dict(uni, net_class="subclass")  # the network object is an instance of a user subclass of Network
    return {"universe": uni, "ops": ops + [READ_ALL]}


def strategy(tier):
    return cases()


# ------------------------------------------------------------------ ground truth and comparison
def ground_truth(net):
    g = net.graph
    nodes = list(g.nodes)
    edges = [(u, v, d.get("link")) for u, v, d in g.edges(data=True)]
    origins = [(n, d["origin"]) for n, d in g.nodes(data=True) if "origin" in d]
    dests = [(n, d["destination"]) for n, d in g.nodes(data=True) if "destination" in d]
    return nodes, edges, origins, dests


def ids(xs):
    return sorted(id(x) for x in xs)


def cmp_multimap(got, cands):
    """got: dict key -> value; cands: dict key -> list of admissible values (identity).
    Returns None or a short description of the discrepancy."""
    gk, ck = set(got.keys()), set(cands.keys())
    if gk != ck:
        miss, extra = ck - gk, gk - ck
        return ("missing-key" if miss else "extra-key"), f"missing keys {sorted(map(repr, miss))}, extra keys {sorted(map(repr, extra))}"
    for k, v in got.items():
        if not any(_same(v, c) for c in cands[k]):
            return "wrong-value", f"key {k!r} -> {v!r}, admissible {cands[k]!r}"
    return None


def _same(a, b):
    if isinstance(a, tuple) and isinstance(b, tuple):
        return len(a) == len(b) and all(x is y for x, y in zip(a, b))
    return a is b


def truth_of(name, net, gt):
    """Admissible-values map for a cached lookup, or a list for live ones."""
    nodes, edges, origins, dests = gt
    c = {}
    if name == "nodes_by_name":
        for n in nodes:
            c.setdefault(n.name, []).append(n)
    elif name == "links_by_name":
        for _, _, l in edges:
            c.setdefault(l.name, []).append(l)
    elif name == "nodes_by_link":
        for u, v, l in edges:
            c.setdefault(l, []).append((u, v))
    elif name == "origins":
        for n, o in origins:
            c.setdefault(o, []).append(n)
    elif name == "origins_by_name":
        for n, o in origins:
            c.setdefault(o.name, []).append(o)
    elif name == "origins_by_node":
        for n, o in origins:
            c.setdefault(n, []).append(o)
    elif name == "destinations":
        for n, d in dests:
            c.setdefault(d, []).append(n)
    elif name == "destinations_by_name":
        for n, d in dests:
            c.setdefault(d.name, []).append(d)
    elif name == "destinations_by_node":
        for n, d in dests:
            c.setdefault(n, []).append(d)
    return c


def snapshot(name, gt):
    """Hashable summary of a lookup's ground truth (to detect that a mutator changed it)."""
    nodes, edges, origins, dests = gt
    if name in ("nodes_by_name", "nodes"):
        return tuple(ids(nodes))
    if name in ("links_by_name", "nodes_by_link", "links", "in_links", "out_links(node)", "in_links(node)", "links[u,v]"):
        return tuple(sorted((id(u), id(v), id(l)) for u, v, l in edges)) + (tuple(ids(nodes)) if "(node)" in name else ())
    if name.startswith("origins"):
        return tuple(sorted((id(n), id(o)) for n, o in origins))
    return tuple(sorted((id(n), id(d)) for n, d in dests))


def triples(it):
    return sorted((id(a), id(b), id(c)) for a, b, c in it)


def check_read(ctx, sim, names, last_mut, seen):
    net = sim.net
    gt = ground_truth(net)
    nodes, edges, origins, dests = gt
    for name in names:
        snap = snapshot(name, gt)
        if name in seen and seen[name] != snap:
            ctx.nontrivial = True
        seen[name] = snap
        sig = f"{name}:after:{last_mut}"
        if name in CACHED:
            got = guarded(ctx, f"read:{name}", lambda: dict(getattr(net, name)))
            if crashed(got):
                continue
            bad = cmp_multimap(got, truth_of(name, net, gt))
            if bad:
                ctx.fail(f"{sig}:{bad[0]}", f"{name} does not reflect the graph: {bad[1]}")
        elif name == "links":
            got = guarded(ctx, "read:links", lambda: list(net.links))
            if not crashed(got) and triples(got) != triples(edges):
                ctx.fail(sig, f"net.links = {got!r}, graph edges = {edges!r}")
            got = guarded(ctx, "read:out_links", lambda: list(net.out_links))
            if not crashed(got) and triples(got) != triples(edges):
                ctx.fail(sig, f"net.out_links = {got!r}, graph edges = {edges!r}")
        elif name == "in_links":
            got = guarded(ctx, "read:in_links", lambda: list(net.in_links))
            if not crashed(got) and ids(t[2] for t in got) != ids(e[2] for e in edges):
                ctx.fail(sig, f"net.in_links yields links {got!r}, graph edges = {edges!r}")
        elif name == "nodes":
            got = guarded(ctx, "read:nodes", lambda: list(net.nodes))
            if not crashed(got) and ids(got) != ids(nodes):
                ctx.fail(sig, f"net.nodes = {got!r}, graph nodes = {nodes!r}")
        elif name == "links[u,v]":
            for u, v, l in edges:
                got = guarded(ctx, "read:links[]", lambda: net.links[(u, v)])
                if not crashed(got) and got is not l:
                    ctx.fail(sig, f"net.links[({u!r},{v!r})] = {got!r}, graph has {l!r}")
        else:
            for n in nodes:
                if name == "out_links(node)":
                    got = guarded(ctx, "read:out_links(node)", lambda: list(net.out_links(n)))
                    exp = [e for e in edges if e[0] is n]
                else:
                    got = guarded(ctx, "read:in_links(node)", lambda: list(net.in_links(n)))
                    exp = [e for e in edges if e[1] is n]
                if not crashed(got) and triples(got) != triples(exp):
                    ctx.fail(sig, f"net.{name} for {n!r} = {got!r}, graph gives {exp!r}")


def check_case(case, ctx):
    sim = G.Sim(case["universe"])
    if case["universe"].get("net_class"):
        ctx.label("network:" + case["universe"]["net_class"])
    for op in case["ops"]:
        if isinstance(op[-1], str) and op[-1] in ("$gen", "$keys", "$view"):
            ctx.label("bulk-argument:" + op[-1][1:])
    seen = {}
    last_mut = "-"
    for op in case["ops"]:
        if op[0] == "read":
            check_read(ctx, sim, op[1], last_mut, seen)
            continue
        before = sim.model.copy()
        r = guarded(ctx, op[0], sim.apply, op)
        if crashed(r):
            return
        last_mut = op[0]
        if r[0] in ("raised", "invalid-accepted"):
            ctx.label("path-raised" if op[0] == "add_path" else "invalid-call-" + r[0])
            sim.resync_model()
            if r[0] == "invalid-accepted":
                return  # a non-Node object is now in the graph: the lookups are not defined any more
        m = sim.model
        # labels: replacements and sharing
        if any(before.edges.get(e) not in (None, l) for e, l in m.edges.items()):
            ctx.label("replace-link")
        if any(before.origin.get(n) not in (None, o) for n, o in m.origin.items()):
            ctx.label("replace-origin")
        if any(before.dest.get(n) not in (None, d) for n, d in m.dest.items()):
            ctx.label("replace-destination")
        if len(set(m.origin.values())) < len(m.origin):
            ctx.label("shared-origin")
        if len(set(m.edges.values())) < len(m.edges):
            ctx.label("shared-link")
        nm = [case["universe"]["nodes"][int(t[1:])] for t in m.nodes if t.startswith("n")]
        if len(set(nm)) < len(nm):
            ctx.label("name-clash")
