"""C09 - construction calls build exactly the described graph; malformed paths rejected.

Model-based stateful testing: the graph (nodes by identity, edge -> link identity, attachments,
replacement semantics) is compared with a dict model after every call; malformed paths must raise
and no non-Node object may ever become a graph node.
"""
import itertools

from hypothesis import strategies as st

from lib import graphmodel as G
from lib.harness import crashed, guarded
from lib.sut import Link, Node

ID = "C09"
RULE = (
    "history = 1..20 construction calls over a universe of 5 nodes, 4 links, 3 origins, 3 destinations: add_node, "
    "add_nodes, add_link, add_links, add_origin, add_destination (incl. on nodes not yet in the graph and replacing "
    "earlier attachments/links), add_path with/without origin/destination, well-formed or malformed (first element "
    "not a node; node where a link is due and vice versa at any position; ends in a link; single node; foreign objects "
    "None/str/int/float/Network). Enumerated tier: every path shape over the alphabet {node, link, foreign} up to "
    "length 5 (quick) / 7 (thorough) x origin/destination given or not, applied to an empty and to a pre-built network and with only two distinct nodes (closed paths, cycles); bulk arguments also as one-shot iterators. "
    "Non-trivial = history contains a replacement (link of an edge, origin or destination of a node) or a malformed "
    "path. Distinct = SHA-1 (random) / by construction (enumerated)."
)
BUDGET = {
    "quick": {"examples": 800, "shards": 4, "enum_shards": 4},
    "thorough": {"fuzz_runs": 3000, "examples": 10000, "shards": 16, "enum_shards": 16},
}
EXHAUSTIVE = {
    "quick": "all add_path shapes over {node,link,foreign}^k, k<=5, x origin/destination presence x 2 start states",
    "thorough": "all add_path shapes over {node,link,foreign}^k, k<=7, x origin/destination presence x 2 start states",
}
EXPECTED_LABELS = ("malformed", "wellformed-path", "replace-link", "replace-origin", "replace-destination", "new-node-via-origin", "new-node-via-destination")
ASSUMPTIONS = ["atomicity of a rejected path is not asserted: after a rejected path the model is re-synchronised from the graph",
               "empty paths are not generated (the property does not speak about them)"]
UNI = {"nodes": ["n0", "n1", "n0", "n3", "n1"], "links": ["l0", "l1", "l0", "l3"],  # distinct objects, partly equal names
       "origins": [["ideal", "o0"], ["ramp", "o1"], ["main", "o2"]], "dests": [["free", "d0"], ["cong", "d1"], ["free", "d2"]]}
FOREIGN = ["$none", "o1", "$str", "d1", "$int", "o0", "$float", "d0", "$net", "$obj"]  # incl. origin/destination objects


def enumerate_cases(tier, seed, shard, nshards):
    K = 7 if tier == "thorough" else 5
    idx = 0
    pre = [["add_path", ["n0", "l0", "n1", "l1", "n2"], "o0", "d0"]]
    for k in range(1, K + 1):
        for shape in itertools.product("NLF", repeat=k):
            for o, d in ((None, None), ("o1", None), (None, "d1"), ("o1", "d1")):
                for start in (0, 1, 2):
                    if idx % nshards == shard:
                        ni = li = fi = 0
                        path = []
                        for c in shape:
                            if c == "N":
                                path.append(f"n{(ni + 2 * start) % (5 if start < 2 else 2)}")  # start 2: only two nodes -> cycles, closed paths
                                ni += 1
                            elif c == "L":
                                path.append(f"l{(li + 2) % 4}")
                                li += 1
                            else:
                                path.append(FOREIGN[fi % len(FOREIGN)])
                                fi += 1
                        yield {"universe": UNI, "ops": (pre if start == 1 else []) + [["add_path", path, o, d] + (["$gen"] if idx % 3 == 0 else [])]}
                    idx += 1


@st.composite
def cases(draw):
    node = st.sampled_from([f"n{i}" for i in range(5)])
    link = st.sampled_from([f"l{i}" for i in range(4)])
    orig = st.sampled_from(["o0", "o1", "o2"])
    dest = st.sampled_from(["d0", "d1", "d2"])
    triple = st.tuples(node, link, node).map(list)

    @st.composite
    def path(draw):
        k = draw(st.integers(1, 4))
        p = [draw(node)]
        for _ in range(k):
            p += [draw(link), draw(node)]
        mode = draw(st.integers(0, 9))
        if mode == 0:
            p = p[:-1]  # ends in a link
        elif mode == 1:
            p = p[:1]  # single node
        elif mode == 2:
            j = draw(st.integers(0, len(p) - 1))
            p[j] = draw(st.sampled_from(FOREIGN))
        elif mode == 3:
            j = draw(st.integers(0, len(p) - 1))
            p[j] = draw(link) if j % 2 == 0 else draw(node)
        elif mode == 4:
            p = p[1:]  # starts with a link
        return p

    op = st.one_of(
        st.tuples(st.just("add_node"), node).map(list),
        st.tuples(st.just("add_nodes"), st.lists(node, min_size=1, max_size=3)).map(list),
        st.tuples(st.just("add_nodes"), st.lists(node, min_size=1, max_size=3), st.sampled_from(["$gen", "$keys", "$view"])).map(list),
        st.tuples(st.just("add_links"), st.lists(triple, min_size=1, max_size=3), st.sampled_from(["$gen", "$keys"])).map(list),
        st.tuples(st.just("add_path"), path(), st.one_of(st.none(), orig), st.one_of(st.none(), dest), st.just("$gen")).map(list),
        st.tuples(st.just("add_link"), node, link, node).map(list),
        st.tuples(st.just("add_links"), st.lists(triple, min_size=1, max_size=3)).map(list),
        st.tuples(st.just("add_origin"), orig, node).map(list),
        st.tuples(st.just("add_destination"), dest, node).map(list),
        st.tuples(st.just("add_path"), path(), st.one_of(st.none(), orig), st.one_of(st.none(), dest)).map(list),
        st.tuples(st.just("add_path"), path(), st.one_of(st.none(), orig), st.one_of(st.none(), dest)).map(list),
    )
    uni = dict(UNI, net_class="subclass") if draw(st.integers(0, 2)) == 0 else UNI
    return {"universe": uni, "ops": draw(st.lists(op, min_size=1, max_size=20))}


def strategy(tier):
    return cases()


def shape_of(path):
    return "".join("N" if t.startswith("n") else "L" if t.startswith("l") else "F" for t in path)


def defect_of(path):
    """Which rule a malformed path breaks (bucket for signatures)."""
    s = shape_of(path)
    if s[0] != "N":
        return "first-not-node"
    if len(s) == 1:
        return "single-node"
    for k, c in enumerate(s):
        if c != ("N" if k % 2 == 0 else "L"):
            return f"alternation:{'node' if k % 2 == 0 else 'link'}-expected-got-{c}"
    return "ends-in-link"


def compare_graph(ctx, sim, where, opname):
    nodes, edges, origin, dest, problems = sim.graph_snapshot()
    for p in problems:
        ctx.fail(f"graph-type:{opname}", f"{where}: {p}")
    g = sim.net.graph
    for n in g.nodes:
        if not isinstance(n, Node):
            ctx.fail(f"non-node-in-graph:{opname}", f"{where}: graph node {n!r} of type {type(n).__name__} is not a Node")
    for u, v, data in g.edges(data=True):
        if not isinstance(u, Node) or not isinstance(v, Node) or not isinstance(data.get("link"), Link):
            ctx.fail(f"bad-edge:{opname}", f"{where}: edge ({u!r}, {v!r}) carries {data!r}")
    m = sim.model
    if sorted(nodes) != sorted(m.nodes):
        ctx.fail(f"nodes:{opname}", f"{where}: graph nodes {sorted(nodes)} != described {sorted(m.nodes)}")
    if edges != m.edges:
        ctx.fail(f"edges:{opname}", f"{where}: graph edges {edges} != described {m.edges}")
    if origin != m.origin:
        ctx.fail(f"origins:{opname}", f"{where}: origin attachments {origin} != described {m.origin}")
    if dest != m.dest:
        ctx.fail(f"destinations:{opname}", f"{where}: destination attachments {dest} != described {m.dest}")


def check_case(case, ctx):
    sim = G.Sim(case["universe"])
    if case["universe"].get("net_class"):
        ctx.label("network:" + case["universe"]["net_class"])
    for op in case["ops"]:
        if isinstance(op[-1], str) and op[-1] in ("$gen", "$keys", "$view"):
            ctx.label("bulk-argument:" + op[-1][1:])
    for k, op in enumerate(case["ops"]):
        before = sim.model.copy()
        where = f"after op {k} {op}"
        r = guarded(ctx, op[0], sim.apply, op)
        if crashed(r):
            return
        if r[0] in ("raised", "invalid-accepted") and op[0] != "add_path":
            sim.resync_model()
            continue
        if op[0] == "add_path":
            wf = G.well_formed(op[1])
            if wf:
                ctx.label("wellformed-path")
                if r[0] == "raised":
                    ctx.fail("wellformed-path-rejected", f"{where}: well-formed path raised {type(r[1]).__name__}: {r[1]}")
                    sim.resync_model()
            else:
                ctx.label("malformed", "malformed:" + defect_of(op[1]))
                ctx.nontrivial = True
                if r[0] == "ok":
                    ctx.fail(f"malformed-accepted:{defect_of(op[1])}:{'dest' if op[3] else 'nodest'}",
                             f"{where}: malformed path (shape {shape_of(op[1])}) was accepted without an error")
                elif not isinstance(r[1], (TypeError, ValueError)):
                    ctx.fail(f"malformed-wrong-error:{type(r[1]).__name__}", f"{where}: malformed path raised {type(r[1]).__name__}: {r[1]}")
                # node-type invariant must hold whatever happened; then re-synchronise (no atomicity claimed)
                g = sim.net.graph
                for n in g.nodes:
                    if not isinstance(n, Node):
                        ctx.fail(f"non-node-in-graph:add_path:{defect_of(op[1])}", f"{where}: graph node {n!r} of type {type(n).__name__} is not a Node")
                sim.resync_model()
                continue
        m = sim.model
        if any(before.edges.get(e) not in (None, l) for e, l in m.edges.items()):
            ctx.label("replace-link")
            ctx.nontrivial = True
        if any(before.origin.get(n) not in (None, o) for n, o in m.origin.items()):
            ctx.label("replace-origin")
            ctx.nontrivial = True
        if any(before.dest.get(n) not in (None, d) for n, d in m.dest.items()):
            ctx.label("replace-destination")
            ctx.nontrivial = True
        if op[0] == "add_origin" and op[2] not in before.nodes:
            ctx.label("new-node-via-origin")
        if op[0] == "add_destination" and op[2] not in before.nodes:
            ctx.label("new-node-via-destination")
        compare_graph(ctx, sim, where, op[0])
