"""C10 - each next state depends only on its own segment and its model neighbours.

Structural oracle: Jacobian sparsity of the compiled function (valid for all numeric inputs at once,
since CasADi's structural sparsity over-approximates true dependence) must be contained in the
allowed-dependency relation derived from the spec (lib/deps.py).  Confirmed numerically on both
engines: perturbing a not-allowed input entry leaves the output entry bit-identical.
"""

from hypothesis import strategies as st

from lib import cas, deps, gen_nets
from lib import spec as S
from lib.harness import crashed, guarded
from lib.sut import np

ID = "C10"
RULE = (
    "case = valid growth-grammar network (>=2 growth steps) x symbol type x positivity options x one admissible "
    "finite state x up to 4 drawn input entries to perturb. Checked: every structural non-zero of d(out entry)/"
    "d(in entry) of the compact=0 function lies in the allowed relation; perturbing each drawn input entry "
    "(x*1.37+0.11) leaves every output entry that is not allowed to depend on it bit-identical, on the compiled "
    "function and on the NumPy step. Non-trivial = >=3 links (so pairs at graph distance >=2 exist). Distinct = SHA-1."
)
BUDGET = {"quick": {"examples": 250, "shards": 4}, "thorough": {"fuzz_runs": 3000, "examples": 2500, "shards": 16}}
EXPECTED_LABELS = ("engine:SX", "engine:MX", "merge", "bifurcation", "interior-ramp", "delta", "phi", "vsl:some", "origin:main",
                   "dest:cong", "cycle", "opts")
ASSUMPTIONS = ["allowed relation lib/deps.py is the property's list of permitted influences",
               "CasADi jac_sparsity is a sound over-approximation of dependence"]


@st.composite
def cases(draw):
    sp = draw(gen_nets.specs(min_ops=2))
    state = draw(gen_nets.states(sp, finite_only=True))
    n_in = len(deps.input_entries(sp))
    return {
        "spec": sp,
        "state": state,
        "sym": draw(st.sampled_from(["SX", "MX"])),
        "opts": draw(st.one_of(st.just([]), st.lists(st.sampled_from(S.OPT_NAMES), unique=True, max_size=6).map(sorted))),
        "perturb": draw(st.lists(st.integers(0, n_in - 1), max_size=4, unique=True)),
    }


def strategy(tier):
    return cases()


def kind_sig(sp, out_key, in_key):
    oi, ov, ok = out_key
    ii, iv, ik = in_key
    l = next((l for l in sp["links"] if l["id"] == oi), None)
    pos = ""
    if l is not None:
        pos = "only" if l["N"] == 1 else "first" if ok == 0 else "last" if ok == l["N"] - 1 else "interior"
    rel = "same" if oi == ii else "other"
    return f"{ov}:{pos}<-{iv}:{rel}-element"


def check_case(case, ctx):
    sp, state, sym = case["spec"], case["state"], case["sym"]
    ctx.label(*S.features(sp))
    ctx.label("engine:" + sym)
    if case["opts"]:
        ctx.label("opts")
    A = deps.allowed(sp)
    r = guarded(ctx, "compile", cas.compile_net, sp, sym, 0, False, case["opts"])
    if crashed(r):
        return
    F, net, els = r
    from lib import layout

    lay = layout.Layout(sp, layout.element_order(net, els))
    n_in, n_out = F.n_in(), F.n_out()
    J = guarded(ctx, "jac_sparsity", F.jac_sparsity)
    if crashed(J):
        return
    if len(J) != n_in * n_out:
        raise AssertionError("unexpected jac_sparsity layout")
    # positional mapping of arguments/results to (element, variable): names are C04's business
    ins = [(items[0][0], items[0][1]) for _n, items in lay.inputs(0)]
    outs = [(items[0][0], items[0][1]) for _n, items in lay.outputs(0)]
    if len(ins) != n_in or len(outs) != n_out or [F.numel_in(k) for k in range(n_in)] != lay.sizes(lay.inputs(0)) or [
            F.numel_out(k) for k in range(n_out)] != lay.sizes(lay.outputs(0)):
        ctx.fail("signature", f"arguments/results do not have the per-element layout: {F.name_in()} {F.name_out()}")
        return
    nnz = 0
    for oi, (oid, ovar) in enumerate(outs):
        for ii, (iid, ivar) in enumerate(ins):
            sp_ = J[oi * n_in + ii]
            if sp_.size1() != F.numel_out(oi) or sp_.size2() != F.numel_in(ii):
                raise AssertionError("unexpected jac_sparsity block shape")
            rows, cols = sp_.get_triplet()
            for rr, cc in zip(rows, cols):
                nnz += 1
                ok_, ik_ = (oid, ovar, rr), (iid, ivar, cc)
                if ik_ not in A.get(ok_, ()):
                    ctx.fail(f"{sym}:structural:{kind_sig(sp, ok_, ik_)}",
                             f"{sym}: next {ovar} of {oid}[{rr}] structurally depends on {ivar} of {iid}[{cc}], which the property does not allow")
    ctx.count("structural_nonzeros", nnz)
    # numeric perturbation on both engines
    entries = deps.input_entries(sp)
    base_np = guarded(ctx, "numpy-step", S.step_numpy, sp, state, case["opts"])
    def call_at(stt):
        res = F(*lay.args(0, stt))
        return (lay.parse(0, list(res) if isinstance(res, (list, tuple)) else [res])[0],)

    base_cs = guarded(ctx, "call", call_at, state)
    def rollout_at(stt):
        """NumPy simulation loop: a first step, then the caller overwrites the next_states arrays in place with
        the values of stt and feeds those very objects to a second step; locality must hold for that step too."""
        from lib.sut import NumpyEngine

        net2, els2, _ = S.build(sp)
        pars = S.pars_kwargs(sp)
        net2.step(init_conditions=S.ic_numpy(els2, state), engine=NumpyEngine(), **pars)
        ic = {}
        for i_, el in els2.items():
            d = {}
            for var, arr in (el.next_states or {}).items():
                arr[...] = np.array(stt[i_][var], dtype=float)
                d[var] = arr
            for var in ("v_ctrl", "r", "q", "d"):
                if var in stt.get(i_, {}):
                    d[var] = np.array(stt[i_][var], dtype=float)
            if d:
                ic[el] = d
        net2.step(init_conditions=ic, engine=NumpyEngine(), **S.opts_kwargs(case["opts"]), **pars)
        return ({i_: {k: np.array(v, dtype=float).reshape(-1).copy() for k, v in el.next_states.items()} for i_, el in els2.items() if el.next_states},)

    base_ro = guarded(ctx, "numpy-rollout", rollout_at, state)
    for idx in case["perturb"]:
        (iid, ivar, ik) = entries[idx]
        st2 = {i: {v: list(x) for v, x in s.items()} for i, s in state.items()}
        st2[iid][ivar][ik] = st2[iid][ivar][ik] * 1.37 + 0.11
        for tag, base, run in (
            ("numpy", base_np, lambda: S.step_numpy(sp, st2, case["opts"])),
            (sym, base_cs, lambda: call_at(st2)),
            ("numpy-rollout", base_ro, lambda: rollout_at(st2)),
        ):
            if crashed(base):
                continue
            pert = guarded(ctx, f"{tag}-perturbed", run)
            if crashed(pert):
                continue
            for oid, vs in base[0].items():
                for ovar, arr in vs.items():
                    arr2 = pert[0][oid][ovar]
                    for k in range(len(arr)):
                        if (iid, ivar, ik) in A.get((oid, ovar, k), ()):
                            continue
                        a, b = float(arr[k]), float(arr2[k])
                        if not (a == b or (a != a and b != b)):
                            ctx.fail(f"{tag}:numeric:{kind_sig(sp, (oid, ovar, k), (iid, ivar, ik))}",
                                     f"{tag}: next {ovar} of {oid}[{k}] changed from {a!r} to {b!r} when only {ivar} of {iid}[{ik}] was perturbed")
            ctx.count("perturbations", 1)
    if len(sp["links"]) >= 3:
        ctx.nontrivial = True
