"""C11 - positivity options are exactly clamps at zero.

Metamorphic oracle, on each engine separately and on the SAME network objects re-stepped through a
sequence of option sets:
    step(opts, x) == clip_next(opts)( step(no options, clip_init(opts)(x)) )      entry-wise,
the right-hand side being computed on a fresh twin network.  With all options off and outputs that
go negative, the result is compared with the independent reference model (nothing clamped).
"""
import math

from hypothesis import strategies as st

from lib import cas, gen_nets, layout, refmodel
from lib import spec as S
from lib.harness import crashed, guarded
from lib.sut import NumpyEngine, np

ID = "C11"
RULE = (
    "case = valid growth-grammar network (exponent a integer in 3/4 of the links) x engine {numpy, SX, MX} x a "
    "sequence of 1..3 option sets (6-bit masks, all 64 reachable) applied one after the other to the same network "
    "objects (NumPy: optionally followed by a step fed with the very next_states objects under another option set) x one input with ~40% negative densities/speeds/queues; plus, for the empty option set, a non-negative "
    "input compared with the reference model. Non-trivial = at least one clamp is active (an input entry negative "
    "where its init flag is on, or a plain output entry negative where its next flag is on) and the compared entries "
    "are not NaN. Distinct = SHA-1 of the case."
)
BUDGET = {"quick": {"examples": 160, "shards": 4}, "thorough": {"fuzz_runs": 3000, "examples": 4000, "shards": 16}}
EXPECTED_LABELS = ("feedback", "engine:numpy", "engine:SX", "engine:MX", "clamp:init:v", "clamp:init:rho", "clamp:init:w", "clamp:next:v",
                   "clamp:next:rho", "clamp:next:w", "opts:none", "opts:all", "restep", "unclamped-negative-output",
                   "vsl:some", "origin:main", "origin:simp_lim")
ASSUMPTIONS = ["entries whose plain result is NaN are skipped and counted (fmax(0, NaN) differs between libm and NumPy)",
               "tolerance 1e-12 x term scale"]
INIT = {"positive_init_speed": "v", "positive_init_density": "rho", "positive_init_queue": "w"}
NEXT = {"positive_next_speed": "v", "positive_next_density": "rho", "positive_next_queue": "w"}


def mask_to_opts(m):
    return [n for k, n in enumerate(S.OPT_NAMES) if m >> k & 1]


@st.composite
def cases(draw):
    sp = draw(gen_nets.specs(integer_a="mostly"))
    return {
        "spec": sp,
        "state": draw(gen_nets.states(sp, negative=True, finite_only=True)),
        "state_pos": draw(gen_nets.states(sp, finite_only=True)),
        "engine": draw(st.sampled_from(["numpy", "SX", "MX"])),
        "masks": draw(st.lists(st.integers(0, 63), min_size=1, max_size=3)),
        "feedback_mask": draw(st.one_of(st.none(), st.integers(0, 63))),
    }


def strategy(tier):
    return cases()


def clip_state(state, opts, which, ctx=None, tag="init"):
    out = {i: {v: list(x) for v, x in s.items()} for i, s in state.items()}
    for name, var in which.items():
        if name in opts:
            for i, s in out.items():
                if var in s and (var != "v" or "rho" in s):  # 'v' only of links (origins have v_ctrl, not v)
                    if ctx is not None and any(x < 0 for x in s[var]):
                        ctx.label(f"clamp:{tag}:{var}")
                        ctx.nontrivial = True
                    s[var] = [max(0.0, x) if x == x else x for x in s[var]]
    return out


def step_on(kind, sp, state, opts, built, ic=None):
    """Steps/compiles on the given (possibly re-used) network objects; returns next {id: {var: arr}}.
    ic: the caller's own init_conditions dictionaries, re-used as they are across steps."""
    net, els, _ = built
    pars = S.pars_kwargs(sp)
    if kind == "numpy":
        net.step(init_conditions=ic if ic is not None else S.ic_numpy(els, state), engine=NumpyEngine(), **S.opts_kwargs(opts), **pars)
        return {i: {k: np.asarray(v, dtype=float).reshape(-1) for k, v in el.next_states.items()} for i, el in els.items() if el.next_states}
    F, _, _ = cas.compile_net(sp, kind, 0, False, opts, built=built)
    lay = layout.Layout(sp, layout.element_order(net, els))
    res = F(*lay.args(0, state))
    return lay.parse(0, list(res) if isinstance(res, (list, tuple)) else [res])[0]


def feedback(ctx, sp, case, shared):
    net, els, _ = shared
    opts = mask_to_opts(case["feedback_mask"])
    state = case["state"]
    ic, state2 = {}, {}
    for i, el in els.items():
        d = {}
        if el.next_states:
            d.update(el.next_states)  # same objects
        for var in ("v_ctrl", "r", "q", "d"):
            if var in state.get(i, {}):
                d[var] = np.array(state[i][var], dtype=float)
        if d:
            ic[el] = d
            state2[i] = {k: [float(x) for x in np.asarray(v, dtype=float).reshape(-1)] for k, v in d.items()}
    if any(x != x for s_ in state2.values() for v in s_.values() for x in v):
        return
    ctx.label("feedback")
    r = guarded(ctx, "numpy-feedback-step", lambda: net.step(init_conditions=ic, engine=NumpyEngine(), **S.opts_kwargs(opts), **S.pars_kwargs(sp)))
    if crashed(r):
        return
    got = {i: {k: np.asarray(v, dtype=float).reshape(-1) for k, v in el.next_states.items()} for i, el in els.items() if el.next_states}
    clipped = clip_state(state2, opts, INIT, ctx, "init")
    plain = guarded(ctx, "numpy-step-plain", step_on, "numpy", sp, clipped, [], S.build(sp))
    if crashed(plain):
        return
    scales = refmodel.scales(sp, clipped)
    for i, vs in plain.items():
        for var, arr in vs.items():
            on = next((n for n, v in NEXT.items() if v == var), None) in opts
            for k in range(len(arr)):
                p = float(arr[k])
                if p != p:
                    ctx.count("nan_skipped")
                    continue
                exp = max(0.0, p) if on else p
                x = float(got[i][var][k])
                sc = scales[i][var][k]
                tol = 1e-12 * sc + 1e-300 if math.isfinite(sc) else 0.0
                if not (x == exp or abs(x - exp) <= tol):
                    ctx.fail(f"numpy:{var}:feedback", f"numpy, options {opts}, fed with the previous step's next_states objects: {var}+ of {i}[{k}] = {x!r}, "
                             f"but clamp(plain step of clamped input) = {exp!r}")


def check_case(case, ctx):
    sp, kind = case["spec"], case["engine"]
    ctx.label(*S.features(sp))
    ctx.label("engine:" + kind)
    shared = guarded(ctx, "build", S.build, sp)
    if crashed(shared):
        return
    if len(case["masks"]) > 1:
        ctx.label("restep")
    kept_ic = S.ic_numpy(shared[1], case["state"]) if kind == "numpy" else None  # one dictionary for all steps
    for step_no, m in enumerate(case["masks"]):
        opts = mask_to_opts(m)
        if "positive_init_speed" in opts and any(o["kind"] == "main" and case["state"][o["id"]]["v_ctrl"][0] < 0 for o in sp["origins"]):
            ctx.label("init-speed-flag+negative-mainstream-limit")
        ctx.label("opts:none" if m == 0 else "opts:all" if m == 63 else "opts:some")
        state = case["state"]
        got = guarded(ctx, f"{kind}-step-opts", step_on, kind, sp, state, opts, shared, kept_ic)
        clipped = clip_state(state, opts, INIT, ctx, "init")
        plain = guarded(ctx, f"{kind}-step-plain", step_on, kind, sp, clipped, [], S.build(sp))
        if crashed(got) or crashed(plain):
            continue
        scales = refmodel.scales(sp, clipped)
        for i, vs in plain.items():
            for var, arr in vs.items():
                flag = next((n for n, v in NEXT.items() if v == var), None)
                on = flag in opts
                g = got.get(i, {}).get(var)
                if g is None or len(g) != len(arr):
                    ctx.fail(f"{kind}:shape", f"{kind}: {var}+ of {i}: {g!r} vs {arr!r}")
                    continue
                for k in range(len(arr)):
                    p = float(arr[k])
                    if p != p:
                        ctx.count("nan_skipped")
                        continue
                    exp = max(0.0, p) if on else p
                    if on and p < 0:
                        ctx.label(f"clamp:next:{var}")
                        ctx.nontrivial = True
                    x = float(g[k])
                    sc = scales[i][var][k]
                    tol = 1e-12 * sc + 1e-300 if math.isfinite(sc) else 0.0
                    if not (x == exp or abs(x - exp) <= tol):
                        active = sorted(o for o in opts if INIT.get(o) or NEXT.get(o))
                        which = ("next-flag-on" if on else "next-flag-off") + (":restep" if step_no else "")
                        ctx.fail(f"{kind}:{var}:{which}",
                                 f"{kind}, options {active} (step {step_no} on the same objects): {var}+ of {i}[{k}] = {x!r}, "
                                 f"but clamp(plain step of clamped input) = {exp!r} (plain {p!r})")
    # simulation loop: the very next_states objects of the last step are fed back with another option set
    if kind == "numpy" and case.get("feedback_mask") is not None:
        feedback(ctx, sp, case, shared)
    # all options off: nothing is clamped (compare with the reference on an admissible input)
    state = case["state_pos"]
    got = guarded(ctx, f"{kind}-step-none", step_on, kind, sp, state, [], shared)
    if not crashed(got):
        ref = refmodel.ref_step(sp, state)[0]
        refs = [ref] + [refmodel.ref_step(sp, state, v)[0] for v in refmodel.underdetermined_variants(sp, state)]
        if any(x[0] < 0 for vs in ref.values() for vals in vs.values() for x in vals):
            ctx.label("unclamped-negative-output")
        for (i, var, k, g, r, sc) in refmodel.compare(got, refs):
            ctx.fail(f"{kind}:{var}:options-off", f"{kind}, all options off (after {len(case['masks'])} earlier steps with options on the same objects): "
                     f"{var}+ of {i}[{k}] = {g!r}, reference {r!r}")
