"""C12 - stepping is a pure, repeatable function of the supplied values.

Stateful: a history of steps / compilations with different values, engines, options and partial
initial conditions on the SAME network objects.  After every operation:
  * every array, symbol and dictionary supplied by the caller is unchanged (byte snapshots / identity),
  * the element parameters are unchanged,
  * the numeric result equals the result of the same operation on a FRESH twin network (bit-identical
    for the NumPy engine), i.e. it does not depend on what was stepped or compiled before.
"""
import math

from hypothesis import strategies as st

from lib import gen_nets
from lib import spec as S
from lib.harness import crashed, guarded
from lib.sut import CasadiEngine, NumpyEngine, cs, np

ID = "C12"
RULE = (
    "history = 2..7 operations on one network object, each: NumPy step from value set A (admissible) or B (with negative entries) (all variables "
    "supplied, or a drawn subset omitted and created by a constant-valued engine), NumPy step from arrays the caller keeps for the whole history and overwrites in place, NumPy step fed with the very "
    "next_states objects of the previous step (simulation loop), CasADi SX/MX step with caller-created symbols "
    "(all or a subset) evaluated at A or B, or CasADi step with engine symbols + to_function; each with a drawn "
    "option subset and optionally without the optional model parameters delta/phi. Non-trivial = >=3 operations, >=2 distinct value sets used and some (values, engine, options, "
    "subset) repeated. Distinct = SHA-1 of the case."
)
RULE += ' The supplied dictionary is a dict or a defaultdict; per case either one engine object per kind is kept for the whole history or a fresh one is made per call.'
BUDGET = {"quick": {"examples": 150, "shards": 4}, "thorough": {"fuzz_runs": 3000, "examples": 2000, "shards": 16}}
EXPECTED_LABELS = ("op:numpy", "op:numpy-persist", "op:numpy-next", "op:SX", "op:MX", "op:compile", "partial-init", "opts", "repeat",
                   "numpy-after-casadi", "interior-ramp", "merge", "vsl:some", "origin:main")
ASSUMPTIONS = ["fresh twin = same spec built anew; NumPy results compared bit-for-bit, CasADi numeric results to 1e-13 relative",
               "engine-created NumPy variables use the constant initialiser so that they are deterministic"]
PARAMS = ("N", "lam", "L", "rho_max", "rho_crit", "v_free", "a", "turnrate", "C", "vsl", "alpha", "flow_eq_type", "name")


@st.composite
def cases(draw):
    sp = draw(gen_nets.specs(max_ops=6, force_delta_phi=True))
    A = draw(gen_nets.states(sp, finite_only=True))
    B = draw(gen_nets.states(sp, finite_only=True, negative=True))  # inadmissible values too: purity holds for all inputs
    keys = [[i, v] for i, s in A.items() for v in s]
    ops = []
    n = draw(st.integers(2, 7))
    for _ in range(n):
        kind = draw(st.sampled_from(["numpy", "numpy", "numpy-next", "numpy-persist", "SX", "MX", "compile"]))
        op = {"kind": kind, "vals": draw(st.integers(0, 1)),
              "opts": draw(st.one_of(st.just([]), st.lists(st.sampled_from(S.OPT_NAMES), unique=True, max_size=3).map(sorted)))}
        if kind in ("numpy", "SX", "MX") and draw(st.integers(0, 2)) == 0 and keys:
            op["omit"] = draw(st.lists(st.sampled_from(keys), min_size=1, max_size=3, unique_by=lambda k: tuple(k)))
        if kind == "compile":
            op["sym"] = draw(st.sampled_from(["SX", "MX"]))
        elif draw(st.integers(0, 3)) == 0:
            op["container"] = "defaultdict"  # the supplied dictionary is a dict subclass that inserts on a missing-key lookup
        if draw(st.integers(0, 2)) == 0:
            op["drop"] = draw(st.sampled_from([["delta"], ["phi"], ["delta", "phi"]]))  # optional model parameters omitted in this step
        if draw(st.integers(0, 3)) == 0 and ops:
            op = dict(draw(st.sampled_from(ops)))  # exact repetition of an earlier operation
        ops.append(op)
    # one engine object per kind kept for the whole history (what a user's script does) or a fresh one per call
    return {"spec": sp, "values": [A, B], "ops": ops, "keep_engine": draw(st.booleans())}


def strategy(tier):
    return cases()


def snap_params(els):
    out = {}
    for i, el in els.items():
        for p in PARAMS:
            if hasattr(el, p):
                v = getattr(el, p)
                out[(i, p)] = (type(v).__name__, repr(v))
    return out


def numeric_next(els):
    return {i: {k: np.array(v, dtype=float).reshape(-1).copy() for k, v in el.next_states.items()} for i, el in els.items() if el.next_states}


class Supplied:
    """Caller-held data for one operation, with snapshots taken before the call."""

    def __init__(self):
        self.ic = {}
        self.snaps = []
        self.dicts = {}
        self.outer_keys = []

    def add_array(self, el, var, arr):
        self.ic.setdefault(el, {})[var] = arr
        self.snaps.append(("array", el, var, arr, arr.tobytes(), arr.dtype, arr.shape, arr.flags.writeable))

    def add_symbol(self, el, var, sym):
        self.ic.setdefault(el, {})[var] = sym
        self.snaps.append(("symbol", el, var, sym, type(sym)(sym), None, tuple(sym.shape), None))

    def freeze(self, container=None):
        if container == "defaultdict":
            import collections

            self.ic = collections.defaultdict(dict, self.ic)
        self.dicts = {el: (d, dict(d)) for el, d in self.ic.items()}
        self.outer_keys = list(self.ic.keys())

    def verify(self, ctx, what):
        if list(self.ic.keys()) != self.outer_keys:
            ctx.fail(f"{what}:supplied-dict-keys", f"{what}: the supplied init_conditions dictionary changed its keys")
        for el, (d, before) in self.dicts.items():
            if set(d.keys()) != set(before.keys()) or any(d[k] is not before[k] for k in before):
                ctx.fail(f"{what}:supplied-dict", f"{what}: the dictionary supplied for {el.name} was modified: {sorted(before)} -> {sorted(d)}")
        for kind, el, var, obj, b0, dt, shp, wr in self.snaps:
            if kind == "array":
                if obj.tobytes() != b0 or obj.dtype != dt or obj.shape != shp or obj.flags.writeable != wr:
                    ctx.fail(f"{what}:supplied-array:{var}", f"{what}: the array supplied as {var} of {el.name} was modified: now {obj!r}")
            else:
                same = tuple(obj.shape) == shp and bool(cs.is_equal(obj, b0, 3))
                if not same:
                    ctx.fail(f"{what}:supplied-symbol:{var}", f"{what}: the symbol supplied as {var} of {el.name} was modified: now {obj}")


def _engine(persist, shared, kind):
    make = (lambda: NumpyEngine(0.5)) if kind == "numpy" else (lambda: CasadiEngine(kind))
    if not shared or not persist or not persist.get(("_keep_engine", "")):
        return make()
    key = ("_engine", kind)
    if key not in persist:
        persist[key] = make()
    return persist[key]


def run_op(ctx, sp, op, values, bundle, prev_next, shared, persist=None):
    """Executes op on the network bundle; returns (numeric next or None, Supplied)."""
    net, els, _ = bundle
    pars = {k: v for k, v in S.pars_kwargs(sp).items() if k not in op.get("drop", [])}
    opts = S.opts_kwargs(op["opts"])
    state = values[op["vals"]]
    omit = {tuple(k) for k in op.get("omit", [])}
    sup = Supplied()
    kind = op["kind"]
    tag = f"{kind}{'-shared' if shared else '-fresh'}"
    if kind in ("numpy", "numpy-next", "numpy-persist"):
        if kind == "numpy-persist":
            # the caller keeps one set of arrays for the whole history and overwrites them in place
            store = persist if shared else {}
            for i, s in state.items():
                for var, vals in s.items():
                    arr = store.get((i, var))
                    if arr is None:
                        arr = store[(i, var)] = np.array(vals, dtype=float)
                    else:
                        arr[...] = np.array(vals, dtype=float)
                    sup.add_array(els[i], var, arr)
        elif kind == "numpy-next":
            if prev_next is None:
                return None, sup
            for i, el in els.items():
                src = {}
                if shared:
                    if el.next_states:
                        src.update(el.next_states)  # the very objects
                else:
                    src.update({k: v.copy() for k, v in prev_next.get(i, {}).items()})
                for grp in ("v_ctrl", "r", "q", "d"):
                    if grp in state.get(i, {}) and grp not in src:
                        src[grp] = np.array(state[i][grp], dtype=float)
                for var, arr in src.items():
                    if not isinstance(arr, np.ndarray):
                        # a NumPy step must leave NumPy quantities; anything else can only come from an earlier step
                        ctx.fail("numpy-next:history-dependent:type", f"after a NumPy step, next_states[{var}] of {i} is a {type(arr).__name__}")
                        return None, sup
                    sup.add_array(el, var, arr)
        else:
            for i, s in state.items():
                for var, vals in s.items():
                    if (i, var) not in omit:
                        sup.add_array(els[i], var, np.array(vals, dtype=float))
        sup.freeze(op.get("container"))
        eng = _engine(persist, shared, "numpy")
        r = guarded(ctx, f"{tag}-step", lambda: net.step(init_conditions=sup.ic, engine=eng, **opts, **pars))
        if crashed(r):
            return None, sup
        return numeric_next(els), sup
    sym = op.get("sym", kind)
    XX = getattr(cs, sym)
    eng = _engine(persist, shared, sym)
    if kind == "compile":
        r = guarded(ctx, f"{tag}-step", lambda: net.step(engine=eng, **opts, **pars))
        if crashed(r):
            return None, sup
        F = guarded(ctx, f"{tag}-to_function", lambda: eng.to_function(net, compact=2, **pars))
        if crashed(F):
            return None, sup
        from lib import layout

        lay = layout.Layout(sp, layout.element_order(net, els))
        res = F(*lay.args(2, state))
        sup.freeze()
        return lay.parse(2, list(res) if isinstance(res, (list, tuple)) else [res])[0], sup
    syms, vals_in = [], []
    for i, s in state.items():
        for var, vals in s.items():
            if (i, var) in omit or len(vals) == 0:
                continue
            x = XX.sym(f"{var}_{i}", len(vals), 1)
            sup.add_symbol(els[i], var, x)
            syms.append(x)
            vals_in.append(cs.DM(np.array(vals, dtype=float).reshape(-1, 1)))
    sup.freeze(op.get("container"))
    r = guarded(ctx, f"{tag}-step", lambda: net.step(init_conditions=sup.ic, engine=eng, **opts, **pars))
    if crashed(r):
        return None, sup
    # engine-created symbols for the omitted variables are evaluated at 0.5 like the NumPy constant engine
    outs, keys = [], []
    for i, el in els.items():
        if el.next_states:
            for var, e in el.next_states.items():
                outs.append(e)
                keys.append((i, var))
    allsyms = list(syms)
    vals_all = list(vals_in)
    free = cs.symvar(cs.veccat(*outs)) if outs else []
    known = [s for x in syms for s in cs.symvar(x)]  # by identity: distinct symbols may carry the same name
    for s in free:
        if not any(cs.is_equal(s, t) for t in known):
            allsyms.append(s)
            vals_all.append(cs.DM(np.full((s.numel(), 1), 0.5)))
            known.append(s)
    f = guarded(ctx, f"{tag}-function", lambda: cs.Function("f", allsyms, outs))
    if crashed(f):
        return None, sup
    res = f(*vals_all)
    res = list(res) if isinstance(res, (list, tuple)) else [res]
    nxt = {}
    for (i, var), val in zip(keys, res):
        nxt.setdefault(i, {})[var] = np.array(val, dtype=float).reshape(-1)
    return nxt, sup


def same(a, b, exact):
    if a.shape != b.shape:
        return False
    if exact:
        return a.tobytes() == b.tobytes() or bool(np.all((a == b) | (np.isnan(a) & np.isnan(b))))
    return bool(np.all((a == b) | (np.isnan(a) & np.isnan(b)) | (np.abs(a - b) <= 1e-13 * (np.abs(a) + np.abs(b)))))


def check_case(case, ctx):
    sp, values, ops = case["spec"], case["values"], case["ops"]
    ctx.label(*S.features(sp))
    shared = guarded(ctx, "build", S.build, sp)
    if crashed(shared):
        return
    params0 = snap_params(shared[1])
    prev_shared = None
    persist = {("_keep_engine", ""): bool(case.get("keep_engine"))}
    ctx.label("engine:kept" if case.get("keep_engine") else "engine:fresh-per-call")
    seen_ops, used_vals, repeated = [], set(), False
    last_kind = None
    for k, op in enumerate(ops):
        ctx.label("op:" + op["kind"])
        if op.get("omit"):
            ctx.label("partial-init")
        if op.get("container"):
            ctx.label("container:" + op["container"])
        if op["opts"]:
            ctx.label("opts")
        if op["kind"].startswith("numpy") and last_kind in ("SX", "MX", "compile"):
            ctx.label("numpy-after-casadi")
        key = repr(sorted(op.items()))
        if key in seen_ops:
            repeated = True
            ctx.label("repeat")
        seen_ops.append(key)
        used_vals.add(op["vals"])
        prev_vals = None if prev_shared is None else {i: {v: a.copy() for v, a in vs.items()} for i, vs in prev_shared.items()}
        usable_prev = prev_vals is not None and all(np.all(np.isfinite(a)) for vs in prev_vals.values() for a in vs.values())
        got, sup = run_op(ctx, sp, op, values, shared, prev_vals if usable_prev else None, True, persist)
        what = f"op{k}:{op['kind']}"
        sup.verify(ctx, op["kind"])
        p1 = snap_params(shared[1])
        if p1 != params0:
            diff = sorted(str(kk) for kk in params0 if params0[kk] != p1.get(kk))
            ctx.fail(f"{op['kind']}:parameters", f"{what}: element parameters changed: {diff}")
        if got is not None:
            fresh = guarded(ctx, "build", S.build, sp)
            exp, _ = run_op(ctx, sp, op, values, fresh, prev_vals if usable_prev else None, False)
            if exp is not None:
                exact = op["kind"].startswith("numpy")
                for i, vs in exp.items():
                    for var, arr in vs.items():
                        g = got.get(i, {}).get(var)
                        if g is None or not same(np.asarray(g), np.asarray(arr), exact):
                            hist = [o["kind"] for o in ops[:k]]
                            ctx.fail(f"{op['kind']}:history-dependent:{var}",
                                     f"{what} after {hist}: {var}+ of {i} = {None if g is None else np.asarray(g).tolist()} but a fresh network gives {np.asarray(arr).tolist()}")
            if op["kind"].startswith("numpy"):
                prev_shared = got
            else:
                prev_shared = None
        last_kind = op["kind"]
    if len(ops) >= 3 and len(used_vals) >= 2 and repeated:
        ctx.nontrivial = True
