"""C13 - the selected engine is the default; an explicit engine is always honoured.

Model-based stateful testing with spy engines (EngineBase subclasses that delegate to a real engine
and log every primitive / var / vcat / max access).  Selection model after every operation; call
logs and value types after every step.
"""
from hypothesis import strategies as st

from lib import sut  # must come first: puts the working tree on sys.path
from lib import gen_nets
from lib import spec as S
from lib.harness import crashed, guarded
from lib.sut import CasadiEngine, EngineBase, EngineNotFoundError, NumpyEngine, cs, engines, np

sym_metanet = sut.sym_metanet
ID = "C13"
RULE = (
    "history = 2..8 operations: use(name) with 'numpy'/'casadi' (+sym_type) or a refused name (case variants, '', "
    "padded, unknown), use(instance) of a spy or of a real engine (incl. a second instance of the class already "
    "selected), step() without engine, step(engine=X) for X a spy over NumPy/SX/MX or a real engine, element-level init_vars()/step() of one element with the default or an explicit engine (after a full step of the same kind), on a valid "
    "growth-grammar network. Non-trivial = the history contains an explicit-engine step while an engine of a "
    "different kind (or a different instance) is selected. Distinct = SHA-1 of the case."
)
RULE += ' Half of the networks have mainstream origins at every source; element-level operations are biased towards mainstream origins.'
BUDGET = {"quick": {"examples": 300, "shards": 4}, "thorough": {"fuzz_runs": 3000, "examples": 2000, "shards": 16}}
EXPECTED_LABELS = ("use:other-thread", "step_fail", "el:init", "el:step", "el:init+step", "el:default", "el:explicit", "use:name", "use:bad-name", "use:spy", "use:real", "use:same-class-instance", "step:default", "step:explicit",
                   "explicit-differs-from-selected", "pair:numpy/SX", "pair:SX/numpy", "pair:MX/numpy", "pair:numpy/MX", "pair:SX/MX",
                   "interior-ramp", "delta", "merge", "bifurcation", "dest:cong", "origin:main",
                   "el:main-origin-default-step-after-init-by-another-engine")
ASSUMPTIONS = ["a spy delegates every primitive unchanged; engine-created variables are used for the steps"]
KINDS = ("numpy", "SX", "MX")
BAD = ["Casadi", "NUMPY", "", "numpy ", " casadi", "jax", "sympy", "Numpy", "casadi.Engine", "engine"]


class SpyNS:
    def __init__(self, real, log, group):
        self._real, self._log, self._group = real, log, group

    def __getattr__(self, name):
        f = getattr(self._real, name)

        def wrapper(*a, **k):
            self._log.append(f"{self._group}.{name}")
            return f(*a, **k)

        return wrapper


class Spy(EngineBase):
    falsy = False

    def __bool__(self):  # e.g. an engine that keeps a (still empty) registry and defines __len__
        return not self.falsy

    def __init__(self, kind):
        super().__init__()
        self.kind = kind
        self.real = NumpyEngine(0.5) if kind == "numpy" else CasadiEngine(kind)
        self.log = []

    nodes = property(lambda self: SpyNS(self.real.nodes, self.log, "nodes"))
    links = property(lambda self: SpyNS(self.real.links, self.log, "links"))
    origins = property(lambda self: SpyNS(self.real.origins, self.log, "origins"))
    destinations = property(lambda self: SpyNS(self.real.destinations, self.log, "destinations"))

    def var(self, *a, **k):
        self.log.append("var")
        return self.real.var(*a, **k)

    def vcat(self, *a):
        self.log.append("vcat")
        return self.real.vcat(*a)

    def max(self, a, b):
        self.log.append("max")
        return self.real.max(a, b)

    def to_function(self, *a, **k):
        self.log.append("to_function")
        return self.real.to_function(*a, **k)


@st.composite
def cases(draw):
    # half of the networks have mainstream origins at all their sources (the only origin kind with a state and a
    # flow law of its own, i.e. the element where element-level engine selection is observable on two primitives)
    sp = draw(gen_nets.specs(max_ops=6, force_delta_phi=draw(st.booleans()), origin_kinds=draw(st.sampled_from([None, ("main",)]))))
    spies = [draw(st.sampled_from(KINDS)) for _ in range(3)]
    if draw(st.booleans()):
        spies = [spies[0]] * 3  # same kind: selections and explicit engines can be mixed at element level
    ops = []
    for _ in range(draw(st.integers(2, 8))):
        k = draw(st.integers(0, 9))
        if k == 0:
            ops.append(["use_name", draw(st.sampled_from(["numpy", "casadi"])), None])
        elif k == 1:
            ops.append(["use_name", "casadi", draw(st.sampled_from(["SX", "MX"]))])
        elif k == 2:
            ops.append(["use_name", draw(st.sampled_from(BAD)), None])
        elif k == 3:
            ops.append(["use_spy", draw(st.integers(0, 2))])
        elif k == 4:
            ops.append(draw(st.sampled_from([["use_spy", draw(st.integers(0, 2))], ["use_spy_thread", draw(st.integers(0, 2))]])))
        elif k == 5:
            ops.append(["use_real", draw(st.sampled_from(KINDS))])
        elif k == 6:
            ops.append(["step", None])
        elif k in (7, 8):
            ops.append(["step", ["spy", draw(st.integers(0, 2))]])
        else:
            ops.append(["step", ["real", draw(st.sampled_from(KINDS))]])
        if draw(st.integers(0, 5)) == 0:
            # a step with an explicit engine that fails (a required model parameter is missing)
            ops.append(["step_fail", draw(st.integers(0, 2))])
        if draw(st.integers(0, 2)) == 0:
            # element-level API on one element: init_vars / step with the default or an explicit spy engine
            ops.append(["el", draw(st.sampled_from(["step", "step", "init", "init+step"])), draw(st.integers(0, 30)),
                        draw(st.one_of(st.none(), st.integers(0, 2)))])
    if draw(st.integers(0, 2)) == 0:
        # directed tail: the variables of all elements are created by one engine, then an element is stepped on its
        # own with another engine - the selected one (no engine passed) or an explicit one
        a, b = draw(st.integers(0, 2)), draw(st.integers(0, 2))
        k = draw(st.integers(0, 30))
        if draw(st.booleans()):
            ops += [["step", ["spy", a]], ["use_spy", b], ["el", "step", k, None]]
        else:
            ops += [["use_spy", a], ["step", None], ["el", "step", k, b]]
    return {"spec": sp, "spies": spies, "ops": ops, "edit_menu": draw(st.integers(0, 3)) == 0, "falsy_spy": draw(st.one_of(st.none(), st.none(), st.integers(0, 2))), "opts": draw(st.lists(st.sampled_from(S.OPT_NAMES), unique=True, max_size=2).map(sorted))}


def strategy(tier):
    return cases()


def kind_of_engine(e):
    if isinstance(e, Spy):
        return e.kind
    if isinstance(e, NumpyEngine):
        return "numpy"
    if isinstance(e, CasadiEngine):
        return e.sym_type.__name__
    return "?"


def type_ok(x, kind):
    if kind == "numpy":
        return isinstance(x, (np.ndarray, np.generic, float, int))
    return isinstance(x, getattr(cs, kind))


def check_types(ctx, els, kind, what):
    for i, el in els.items():
        for grpname in ("states", "next_states", "actions", "disturbances"):
            grp = getattr(el, grpname)
            if not grp:
                continue
            for var, x in grp.items():
                if not type_ok(x, kind):
                    ctx.fail(f"type:{grpname}:{kind}", f"{what}: {grpname}[{var}] of {i} has type {type(x).__name__}, not a {kind} quantity")


def reference_primitives(sp, i, kind, opts, pars):
    try:
        net2, els2, _ = S.build(sp)
        Y = Spy(kind)
        net2.step(engine=Y, **opts, **pars)
        els2[i].init_vars(engine=Y)
        n0 = len(Y.log)
        els2[i].step(net=net2, engine=Y, **opts, **pars)
        return set(Y.log[n0:]) - {"var"}
    except Exception:
        return None


def check_case(case, ctx):
    sp = case["spec"]
    feats = S.features(sp)
    ctx.label(*feats)
    engines.use("casadi")  # reset global state at the top of every case
    built = guarded(ctx, "build", S.build, sp)
    if crashed(built):
        return
    net, els, _ = built
    spies = [Spy(k) for k in case["spies"]]
    if case.get("falsy_spy") is not None:
        spies[case["falsy_spy"]].falsy = True
        ctx.label("falsy-engine")
    pars = S.pars_kwargs(sp)
    opts = S.opts_kwargs(case["opts"])
    if case.get("edit_menu"):
        # the caller edits the dictionary of available engines it was handed: unknown names stay unknown
        menu = engines.get_available_engines()
        if isinstance(menu, dict) and "numpy" in menu:
            ctx.label("menu-edited")
            for op in case["ops"]:
                if op[0] == "use_name" and op[1] not in ("numpy", "casadi"):
                    menu[op[1]] = dict(menu["numpy"]) if isinstance(menu["numpy"], dict) else menu["numpy"]
    touched = {}  # element id -> ids of the engines that computed for it since its variables were created
    model = engines.get_current_engine()  # the model of the selection: the object expected to be current
    model_kind = "SX"
    state_kind = None  # kind of the quantities currently held by all elements (set by a full step)
    last_full_engine = None
    try:
        for k, op in enumerate(case["ops"]):
            what = f"op {k} {op}"
            if op[0] == "use_name":
                name, symt = op[1], op[2]
                if name in ("numpy", "casadi"):
                    ctx.label("use:name")
                    r = guarded(ctx, "use", (lambda: engines.use(name, sym_type=symt)) if symt else (lambda: engines.use(name)))
                    if crashed(r):
                        return
                    exp_kind = "numpy" if name == "numpy" else (symt or "SX")
                    if kind_of_engine(r) != exp_kind or isinstance(r, Spy):
                        ctx.fail("use-name:wrong-engine", f"{what}: use() returned {r!r}, expected a {exp_kind} engine")
                    model, model_kind = r, exp_kind
                else:
                    ctx.label("use:bad-name")
                    outcome = None
                    try:
                        outcome = ("returned", engines.use(name))
                    except EngineNotFoundError:
                        pass
                    except Exception as e:
                        outcome = ("raised", e)
                    if outcome and outcome[0] == "returned":
                        ctx.fail("bad-name:accepted", f"{what}: unknown engine name {name!r} was accepted and returned {outcome[1]!r}")
                    elif outcome:
                        ctx.fail(f"bad-name:wrong-error:{type(outcome[1]).__name__}", f"{what}: unknown engine name {name!r} raised {type(outcome[1]).__name__}: {outcome[1]}")
            elif op[0] in ("use_spy", "use_real", "use_spy_thread"):
                if op[0] == "use_spy_thread":
                    # the selection is package-wide: an engine selected from another thread is the current one
                    import threading

                    inst = spies[op[1]]
                    box = {}
                    t = threading.Thread(target=lambda: box.update(r=engines.use(inst)))
                    t.start()
                    t.join()
                    ctx.label("use:other-thread")
                    if box.get("r") is not inst:
                        ctx.fail("use-instance:return", f"{what}: use(instance) in a thread returned {box.get('r')!r}")
                    model, model_kind = inst, kind_of_engine(inst)
                    cur = engines.get_current_engine()
                    if cur is not model or sym_metanet.engine is not model:
                        ctx.fail("selection:after:use-in-thread", f"{what}: current engine is {cur!r}, expected {model!r} selected from another thread")
                        model, model_kind = cur, kind_of_engine(cur)
                    continue
                if op[0] == "use_spy":
                    inst = spies[op[1]]
                    ctx.label("use:spy")
                else:
                    inst = NumpyEngine(0.25) if op[1] == "numpy" else CasadiEngine(op[1])
                    ctx.label("use:real")
                if type(inst) is type(model) and inst is not model:
                    ctx.label("use:same-class-instance")
                r = guarded(ctx, "use", engines.use, inst)
                if crashed(r):
                    return
                if r is not inst:
                    ctx.fail("use-instance:return", f"{what}: use(instance) returned {r!r}, not the instance given")
                model, model_kind = inst, kind_of_engine(inst)
            elif op[0] == "step_fail":
                X = spies[op[1]]
                bad = {k_: v for k_, v in pars.items() if k_ != "tau"}
                try:
                    net.step(engine=X, **opts, **bad)
                    ctx.label("step_fail:did-not-fail")
                except Exception:
                    ctx.label("step_fail")
                state_kind = None  # elements may be half-initialised now
            elif op[0] == "el":
                # only meaningful when every element already holds quantities of one kind (after a full step)
                X = model if op[3] is None else spies[op[3]]
                xk = kind_of_engine(X)
                stateful = [i for i in sorted(els) if els[i]._states]
                if state_kind is None or xk != state_kind or not stateful:
                    continue
                queued = [j for j in stateful if j.startswith("O")]
                mains = [o["id"] for o in sp["origins"] if o["kind"] == "main"]
                pool = mains if (mains and op[2] % 3 != 0) else queued if (queued and op[2] % 2 == 0) else stateful
                i = pool[(op[2] // 2) % len(pool)]
                if last_full_engine is not None and X is not last_full_engine and i.startswith("O"):
                    ctx.label("el:origin-with-engine-other-than-last-full-step")
                if last_full_engine is not None and X is not last_full_engine and i in mains and op[3] is None and op[1] == "step":
                    ctx.label("el:main-origin-default-step-after-init-by-another-engine")
                el = els[i]
                first_use = isinstance(X, Spy) and op[1] == "step" and id(X) not in touched.get(i, {id(X)})
                if "init" in op[1]:
                    touched[i] = set()
                touched.setdefault(i, set()).add(id(X))
                ctx.label("el:" + op[1], "el:default" if op[3] is None else "el:explicit")
                logs_before = [len(s.log) for s in spies]
                kw = {} if op[3] is None else {"engine": X}

                def run_el():
                    if "init" in op[1]:
                        el.init_vars(**kw)
                    if "step" in op[1]:
                        el.step(net=net, **kw, **opts, **pars)

                r = guarded(ctx, f"element-{op[1]}:{model_kind}/{xk}", run_el)
                if crashed(r):
                    return
                if X is not model:
                    ctx.nontrivial = True
                if first_use:
                    # X never computed anything for this element since its variables were created: every quantity of
                    # the step must be computed by X now.  Which primitives a step of this element evaluates is taken
                    # from the library itself, on a fresh twin (full step, element re-initialised, element step; one spy)
                    expected = reference_primitives(sp, i, X.kind, opts, pars)
                    if expected is not None:
                        ctx.label("el:first-use-primitives-checked")
                        got_names = set(X.log[logs_before[spies.index(X)]:]) if X in spies else set()
                        missing = sorted(expected - got_names)
                        if missing:
                            ctx.fail(f"element:not-computed-by-engine:{missing[0]}", f"{what}: element-level step of {i} with the {'selected' if op[3] is None else 'explicit'} engine "
                                     f"(which had not computed anything for it before) did not evaluate {missing} with that engine")
                for j, s_ in enumerate(spies):
                    new = s_.log[logs_before[j]:]
                    if s_ is X:
                        if not new:
                            ctx.fail("element:engine-not-used", f"{what}: element-level {op[1]} of {i} did not use the {'selected' if op[3] is None else 'explicit'} engine")
                    elif new:
                        ctx.fail(f"element:other-engine-used:{new[0]}", f"{what}: element-level {op[1]} of {i} used spy{j} ({s_.kind}) instead of the {'selected' if op[3] is None else 'explicit'} engine {X!r}: {new[:5]}")
            else:
                logs_before = [len(s.log) for s in spies]
                if op[1] is None:
                    ctx.label("step:default")
                    r = guarded(ctx, f"step-default:{model_kind}", lambda: net.step(**opts, **pars))
                    if crashed(r):
                        return
                    check_types(ctx, els, model_kind, what + f" with {model_kind} selected")
                    state_kind = model_kind
                    last_full_engine = model
                    touched = {i_: {id(model)} for i_ in els}
                    for j, s in enumerate(spies):
                        grew = len(s.log) > logs_before[j]
                        if s is model and not grew:
                            ctx.fail("default:selected-not-used", f"{what}: the selected engine was not used by a step without explicit engine")
                        if s is not model and grew:
                            ctx.fail("default:other-engine-used", f"{what}: engine spy{j} ({s.kind}) was used although {model!r} is selected: {s.log[logs_before[j]:][:5]}")
                else:
                    ctx.label("step:explicit")
                    if op[1][0] == "spy":
                        X = spies[op[1][1]]
                    else:
                        X = NumpyEngine(0.5) if op[1][1] == "numpy" else CasadiEngine(op[1][1])
                    xk = kind_of_engine(X)
                    if X is not model:
                        ctx.label("explicit-differs-from-selected", f"pair:{model_kind}/{xk}")
                        ctx.nontrivial = True
                    r = guarded(ctx, f"step-explicit:{model_kind}/{xk}", lambda: net.step(engine=X, **opts, **pars))
                    if crashed(r):
                        return
                    check_types(ctx, els, xk, what + f" with {model_kind} selected")
                    state_kind = xk
                    last_full_engine = X
                    touched = {i_: {id(X)} for i_ in els}
                    for j, s in enumerate(spies):
                        new = s.log[logs_before[j]:]
                        if s is X:
                            need = {"links."}
                            if any(o["kind"] != "ideal" for o in sp["origins"]):
                                need.add("origins.")
                            if sp["dests"]:
                                need.add("destinations.")
                            if feats & {"merge"}:
                                need.add("nodes.")
                            missing = [p for p in need if not any(c.startswith(p) for c in new)]
                            if missing or "var" not in new:
                                ctx.fail("explicit:not-used", f"{what}: the explicit engine computed nothing for {missing or 'var'}")
                        elif new:
                            sel = " (the selected engine)" if s is model else ""
                            ctx.fail(f"explicit:other-engine-used:{new[0]}", f"{what}: spy{j}{sel} ({s.kind}) was used although engine {X!r} was passed explicitly: {new[:5]}")
            # selection model after every operation
            cur = engines.get_current_engine()
            if cur is not model or sym_metanet.engine is not model:
                ctx.fail(f"selection:after:{op[0]}", f"{what}: current engine is {cur!r} (module attribute {sym_metanet.engine!r}), expected {model!r}")
                model, model_kind = cur, kind_of_engine(cur)
    finally:
        engines.use("casadi")
