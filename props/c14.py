"""C14 - dynamics are invariant to construction order, names and turn-rate scaling.

Metamorphic: a network and a transformed twin (different construction plan / insertion orders,
renamed elements incl. clashing names, turn rates of all links leaving a node scaled by a common
positive factor) must give the same next state for every element (matched through the spec, not by
name or position).  At every node with >=2 leaving links the recovered inflow share equals beta/sum(beta).
"""
import copy
import math

from hypothesis import strategies as st

from lib import cas, gen_nets, layout, refmodel
from lib import spec as S
from lib.harness import crashed, guarded
from lib.sut import np

ID = "C14"
RULE = (
    "case = valid growth-grammar network (>=2 growth steps) with a drawn construction plan, and a twin with an "
    "independently drawn plan, permuted link/origin/destination/node insertion orders, new names (distinct or drawn "
    "from a 3-letter alphabet so that they clash) and a per-node factor 10^[-3,3] applied to the turn rates of all "
    "leaving links; one admissible state (incl. states with zero flow into a merge, where both must agree on NaN); NumPy engine always, compiled SX/MX function (compact 0..2, positional "
    "arguments through the layout model) for 1/3 of the cases. Non-trivial = the twin's link insertion order differs "
    "AND the network has a bifurcation. Distinct = SHA-1 of the case."
)
RULE += ' In a third of the cases the already stepped original network additionally has its turn rates multiplied in place by the per-node factors and is stepped again (nothing may change).'
BUDGET = {"quick": {"examples": 250, "shards": 4}, "thorough": {"fuzz_runs": 3000, "examples": 4000, "shards": 16}}
EXPECTED_LABELS = ("bifurcation", "merge", "1in-multi-out", "multi-in-multi-out", "names:clash", "names:distinct", "engine:SX",
                   "engine:MX", "phi", "delta", "interior-ramp", "share-checked")
ASSUMPTIONS = ["tolerance 1e-9 x term scale"]


@st.composite
def cases(draw):
    sp = draw(gen_nets.specs(min_ops=2))
    # incl. the model's own 0/0 (no flow into a merge): both networks must then agree on NaN as well
    state = draw(gen_nets.states(sp, zero_bias=draw(st.booleans()), allow_singular=True))
    merges = [n["id"] for n in sp["nodes"] if len(S.in_links(sp, n["id"])) >= 2]
    if merges and draw(st.integers(0, 2)) == 0:
        # no flow at all into one merge node (speeds stay different): the model's 0/0; order must still not matter
        for l in S.in_links(sp, draw(st.sampled_from(merges))):
            state[l["id"]]["rho"][-1] = 0.0
    tw = {
        "plan": draw(gen_nets.plans(sp["nodes"], sp["links"], sp["origins"], sp["dests"])),
        "links": list(draw(st.permutations(range(len(sp["links"]))))),
        "origins": list(draw(st.permutations(range(len(sp["origins"]))))),
        "dests": list(draw(st.permutations(range(len(sp["dests"]))))),
        "nodes": list(draw(st.permutations(range(len(sp["nodes"]))))),
        "clash": draw(st.booleans()),
        "names": {},
        "factors": {n["id"]: 10.0 ** draw(st.floats(-3, 3)) for n in sp["nodes"]},
    }
    for grp in ("nodes", "links", "origins", "dests"):
        for e in sp[grp]:
            tw["names"][e["id"]] = draw(st.sampled_from(["a", "b", "c"])) if tw["clash"] else "x" + e["id"][::-1]
    comp = draw(st.sampled_from([None, None, {"sym": "SX"}, {"sym": "MX"}]))
    if comp:
        comp = dict(comp, compact=draw(st.integers(0, 2)))
    # additionally rescale the turn rates of the already stepped original network in place and step it again
    return {"spec": sp, "twin": tw, "state": state, "compile": comp, "inplace": draw(st.integers(0, 2)) == 0}


def strategy(tier):
    return cases()


def make_twin(sp, tw):
    t = copy.deepcopy(sp)
    for grp in ("nodes", "links", "origins", "dests"):
        t[grp] = [t[grp][k] for k in tw[grp]]
        for e in t[grp]:
            e["name"] = tw["names"][e["id"]]
    for l in t["links"]:
        l["turnrate"] = l["turnrate"] * tw["factors"][l["up"]]
    t["plan"] = tw["plan"]
    return t


def run(ctx, sp, state, comp, tag):
    """Returns (next by element id, None) or crashed marker."""
    if comp is None:
        r = guarded(ctx, f"{tag}:numpy-step", S.step_numpy, sp, state)
        return r if crashed(r) else r[0]
    r = guarded(ctx, f"{tag}:compile", cas.compile_net, sp, comp["sym"], comp["compact"])
    if crashed(r):
        return r
    F, net, els = r
    lay = layout.Layout(sp, layout.element_order(net, els))

    def call():
        res = F(*lay.args(comp["compact"], state))
        return lay.parse(comp["compact"], list(res) if isinstance(res, (list, tuple)) else [res])[0]

    return guarded(ctx, f"{tag}:call", call)


def check_case(case, ctx):
    sp, tw, state, comp = case["spec"], case["twin"], case["state"], case["compile"]
    feats = S.features(sp)
    ctx.label(*feats)
    ctx.label("names:clash" if tw["clash"] else "names:distinct")
    twin = make_twin(sp, tw)
    scales = refmodel.scales(sp, state)
    finite = True
    for c in ([None] + ([comp] if comp else [])):
        eng = "numpy" if c is None else c["sym"]
        if c:
            ctx.label("engine:" + c["sym"])
        a = run(ctx, sp, state, c, "original")
        b = run(ctx, twin, state, c, "twin")
        if crashed(a) or crashed(b):
            continue
        bad, fin = refmodel.compare_pair(b, a, scales, fallback=True)
        finite &= fin
        for (i, var, k, x, y, sc, why) in bad:
            l = next((l for l in sp["links"] if l["id"] == i), None)
            pos = "" if l is None else ("first" if k == 0 else "last" if k == l["N"] - 1 else "interior")
            ctx.fail(f"{eng}:{why}:{var}:{pos}", f"{eng}: {var}+ of {i}[{k}] = {y!r} in the original network but {x!r} in the reordered/renamed/rescaled twin")
        if c is None and case.get("inplace"):
            ctx.label("rescaled-in-place")
            r0 = guarded(ctx, "inplace:first-step", S.step_numpy, sp, state)
            if not crashed(r0):
                built = r0[1]
                for l in sp["links"]:
                    el = built[1][l["id"]]
                    el.turnrate = el.turnrate * tw["factors"][l["up"]]
                r1 = guarded(ctx, "inplace:second-step", S.step_numpy, sp, state, None, None, built)
                if not crashed(r1):
                    bad, _fin = refmodel.compare_pair(r1[0], a, scales, fallback=True)
                    for (i, var, k, x, y, sc, why) in bad:
                        ctx.fail(f"inplace:{why}:{var}", f"numpy: {var}+ of {i}[{k}] = {y!r}, but {x!r} when the same network is stepped again after "
                                 f"multiplying the turn rates of the links leaving each node by a common factor in place")
        if c is None:
            # inflow share at bifurcations, from the step's own outputs
            T = sp["pars"]["T"]
            for n in sp["nodes"]:
                outs = S.out_links(sp, n["id"])
                if len(outs) < 2:
                    continue
                qin, qsc = {}, 0.0
                for l in outs:
                    s_ = state[l["id"]]
                    cc = l["lam"] * l["L"] / T
                    r1, r0 = float(a[l["id"]]["rho"][0]), s_["rho"][0]
                    q0 = s_["rho"][0] * s_["v"][0] * l["lam"]
                    qin[l["id"]] = (r1 - r0) * cc + q0
                    qsc += cc * (abs(r1) + abs(r0)) + abs(q0)
                # node inflow from the inputs: a node with >=2 leaving links carries no origin (validity)
                tot = 0.0
                for li in S.in_links(sp, n["id"]):
                    ql = state[li["id"]]["rho"][-1] * state[li["id"]]["v"][-1] * li["lam"]
                    tot += ql
                    qsc += abs(ql)
                bsum = sum(l["turnrate"] for l in outs)
                if not math.isfinite(tot):
                    continue
                ctx.label("share-checked")
                for l in outs:
                    exp = l["turnrate"] / bsum * tot
                    if abs(qin[l["id"]] - exp) > 1e-9 * qsc + 1e-12:
                        ctx.fail("share", f"node {n['id']}: link {l['id']} receives {qin[l['id']]!r} of the node inflow {tot!r}, expected turnrate share {exp!r}")
    if finite and tw["links"] != sorted(tw["links"]) and "bifurcation" in feats:
        ctx.nontrivial = True
