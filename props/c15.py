"""C15 - both engines compute the same value for every model primitive.

Differential: direct calls of every primitive of the engine interface on the NumPy engine (numpy
arrays / scalars in the shapes the element layer produces) and on the CasADi engine (casadi.DM, as
the repository's own tests do); same flattened shape, both finite, equal to 1e-10 x scale.
"""
import math

from hypothesis import strategies as st

from lib.gen_nets import fl, pos
from lib.harness import crashed, guarded
from lib.sut import CasadiEngine, NumpyEngine, cs, np

ID = "C15"
RULE = (
    "case = one primitive (of 22: 3 node rules, link flow/density/speed with every combination of merging and "
    "lane-drop arguments, plain and speed-limited equilibrium speed, queue update, mainstream flow, metered ramp "
    "in/out, simplified ramp limited/unlimited, both destination laws, max, vcat, var) x vector length in {1,2,3,5} "
    "x admissible arguments with boundary bias (0, rho_crit, rho_max, v_free, +inf limits, empty VSL index list, "
    "integer exponents) x scalar arguments as Python float / 0-d / (1,) array. Non-trivial = a boundary value "
    "occurs or the vector length is 1. Distinct = SHA-1 of the case."
)
RULE += ' Also closed ramps (C=0) and entering flows that are all tiny but positive.'
BUDGET = {"quick": {"examples": 2500, "shards": 4}, "thorough": {"fuzz_runs": 3000, "examples": 30000, "shards": 16}}
PRIMS = ("nodes.get_upstream_flow", "nodes.get_upstream_speed", "nodes.get_downstream_density", "links.get_flow",
         "links.step_density", "links.step_speed", "links.Veq", "links.controlled_Veq", "origins.step_queue",
         "origins.get_mainstream_flow", "origins.get_ramp_flow:in", "origins.get_ramp_flow:out",
         "origins.get_simplifiedramp_flow:limited", "origins.get_simplifiedramp_flow:unlimited",
         "destinations.get_congestion_free_downstream_density", "destinations.get_congested_downstream_density",
         "max", "vcat", "var")
EXPECTED_LABELS = tuple("prim:" + p for p in PRIMS) + ("speed:merging", "speed:lanedrop", "speed:both", "speed:plain",
                                                      "vsl:empty", "boundary", "len1", "main:vlim=0", "main:ratio<0.05",
                                                      "main:speed-branch", "main:capacity-branch", "scalar:float", "scalar:0d", "scalar:1d")
ASSUMPTIONS = ["tolerance 1e-10 x (sum of absolute terms of the primitive) + 1e-12", "CasADi side evaluated on casadi.DM"]
NP, CS = NumpyEngine(), CasadiEngine("SX")


def vec(n, lo, hi, specials=()):
    return st.lists(fl(lo, hi, specials), min_size=n, max_size=n)


@st.composite
def cases(draw):
    prim = draw(st.sampled_from(PRIMS + ("links.step_speed",) * 3 + ("origins.get_mainstream_flow", "links.controlled_Veq")))
    n = draw(st.sampled_from([1, 2, 3, 5]))
    rho_max = draw(pos(80, 300))
    rho_crit = draw(pos(10, 0.7 * rho_max))
    v_free = draw(pos(30, 160))
    a = draw(st.one_of(pos(0.8, 4), st.sampled_from([1.0, 2.0, 3.0])))
    if draw(st.integers(0, 3)) == 0:
        # typical round numbers, repeated across cases of the same process while the other arguments change
        rho_max, rho_crit, v_free, a = draw(st.sampled_from([(180.0, 33.5, 102.0, 1.867), (180.0, 30.0, 100.0, 2.0), (120.0, 30.0, 100.0, 2.0)]))
    lanes = draw(st.integers(1, 5))
    L = draw(pos(0.2, 3))
    T = draw(pos(1, 60)) / 3600
    A = {"n": n, "rho_max": rho_max, "rho_crit": rho_crit, "v_free": v_free, "a": a, "lanes": lanes, "L": L, "T": T,
         "scalar_as": draw(st.sampled_from(["float", "0d", "1d"]))}
    rho = lambda k=n: draw(vec(k, 0, rho_max, (rho_crit, rho_max)))  # noqa: E731
    v = lambda k=n: draw(vec(k, 0, 1.5 * v_free, (v_free,)))  # noqa: E731
    q = lambda k=n: draw(vec(k, 0, 9000))  # noqa: E731
    if prim == "nodes.get_upstream_flow":
        m = draw(st.integers(1, 4))
        A.update(q_lasts=q(m), betas=[draw(pos(0.05, 5)) for _ in range(draw(st.integers(2, 4)))], q_orig=draw(st.one_of(st.none(), fl(0, 4000))))
        A["beta"] = A["betas"][0]
        A["scalar_q"] = m == 1 and draw(st.booleans())
    elif prim == "nodes.get_upstream_speed":
        m = draw(st.integers(2, 4))
        ql = q(m)
        if not sum(ql) > 0:
            ql[draw(st.integers(0, m - 1))] = draw(pos(1, 9000))
        if draw(st.integers(0, 3)) == 0:
            ql = [draw(pos(1e-7, 3e-4)) for _ in range(m)]  # a trickle: positive but tiny total inflow (still far from subnormal)
        A.update(q_lasts=ql, v_lasts=v(m))
    elif prim == "nodes.get_downstream_density":
        m = draw(st.integers(2, 4))
        r = rho(m)
        if not sum(r) > 0:
            r[draw(st.integers(0, m - 1))] = draw(pos(1, rho_max))
        A.update(rho_firsts=r)
    elif prim == "links.get_flow":
        A.update(rho=rho(), v=v())
    elif prim == "links.step_density":
        A.update(rho=rho(), q=q(), q_up=q())
    elif prim == "links.step_speed":
        A.update(v=v(), v_up=v(), rho=rho(), rho_down=rho(), Veq=v(), tau=draw(pos(3, 60)) / 3600, eta=draw(pos(1, 150)),
                 kappa=draw(pos(1, 100)))
        mode = draw(st.sampled_from(["plain", "merging", "lanedrop", "both"]))
        A["mode"] = mode
        if mode in ("merging", "both"):
            A.update(q_ramp=draw(fl(0, 4000)), delta=draw(fl(0, 0.1)))
        if mode in ("lanedrop", "both"):
            A.update(lanes_drop=draw(st.sampled_from([-2, -1, 1, 2, 3])), phi=draw(fl(0, 5)))
    elif prim == "links.Veq":
        A.update(rho=rho())
    elif prim == "links.controlled_Veq":
        vsl = sorted(draw(st.sets(st.integers(0, n - 1), max_size=n)))
        A.update(rho=rho(), vsl=vsl, v_ctrl=draw(vec(len(vsl), 0, 200, (math.inf,))), alpha=draw(fl(0, 0.5)))
    elif prim == "origins.step_queue":
        A.update(w=draw(fl(0, 500)), d=draw(fl(0, 8000)), q=draw(fl(0, 9000)))
    elif prim == "origins.get_mainstream_flow":
        vc = [float(np.asarray(NP.links.Veq(rho_crit, v_free, rho_crit, a))), float(CS.links.Veq(cs.DM(rho_crit), v_free, rho_crit, a))]
        A.update(d=draw(fl(0, 8000)), w=draw(fl(0, 500)), v_ctrl=draw(fl(0, 200, (math.inf, v_free) + tuple(vc))), v_first=draw(fl(0, 1.5 * v_free, (v_free,) + tuple(vc))))
    elif prim.startswith("origins.get_ramp_flow"):
        A.update(d=draw(fl(0, 8000)), w=draw(fl(0, 500)), C=draw(st.one_of(pos(200, 5000), pos(200, 5000), st.just(0.0))), r=draw(fl(0, 1, (1,))), rho_first=draw(fl(0, rho_max, (rho_crit, rho_max))))
    elif prim.startswith("origins.get_simplifiedramp_flow"):
        A.update(qdes=draw(fl(0, 6000, (math.inf,) if prim.endswith(":limited") else ())), d=draw(fl(0, 8000)), w=draw(fl(0, 500)),
                 C=draw(pos(200, 5000)), rho_first=draw(fl(0, rho_max, (rho_crit, rho_max))))
    elif prim.startswith("destinations"):
        A.update(rho_last=draw(fl(0, rho_max, (rho_crit, rho_max))), rho_destination=draw(fl(0, rho_max, (rho_crit,))))
    elif prim == "max":
        A.update(x=draw(vec(n, -100, 100)), y=draw(st.one_of(st.just(0), vec(n, -100, 100))))
    elif prim == "vcat":
        part = st.one_of(vec(draw(st.integers(1, 3)), -10, 10), st.integers(-3, 5), fl(-10, 10))  # arrays or Python scalars
        A.update(parts=[draw(part) for _ in range(draw(st.integers(1, 4)))])
    elif prim == "var":
        A.update(size=draw(st.integers(0, 5)))
    return {"prim": prim, "args": A}


def strategy(tier):
    return cases()


def npv(x):
    return np.array(x, dtype=float)


def dm(x):
    x = np.atleast_1d(np.array(x, dtype=float))
    return cs.DM(x.reshape(-1, 1)) if x.size else cs.DM(0, 1)


def scalar_np(x, how):
    return float(x) if how == "float" else np.array(float(x)) if how == "0d" else np.array([float(x)])


def evaluate(prim, A, NPE=None):
    """Returns (numpy result, casadi result, scale array or float)."""
    NPE = NPE or NP
    s = lambda x: scalar_np(x, A["scalar_as"])  # noqa: E731
    lanes, L, T = A["lanes"], A["L"], A["T"]
    rc, rm, vf, a = A["rho_crit"], A["rho_max"], A["v_free"], A["a"]
    base = prim.split(":")[0]
    grp, name = base.split(".") if "." in base else (None, base)
    f_np = getattr(getattr(NPE, grp), name) if grp else getattr(NP, name)
    f_cs = getattr(getattr(CS, grp), name) if grp else getattr(CS, name)
    if prim == "nodes.get_upstream_flow":
        ql = A["q_lasts"]
        qn = np.float64(ql[0]) if A.get("scalar_q") else npv(ql)
        qo = A["q_orig"]
        r1 = f_np(qn, A["beta"], npv(A["betas"]), None if qo is None else s(qo))
        r2 = f_cs(dm(ql), A["beta"], dm(A["betas"]), None if qo is None else dm(qo))
        return r1, r2, sum(ql) + (qo or 0)
    if prim == "nodes.get_upstream_speed":
        return f_np(npv(A["q_lasts"]), npv(A["v_lasts"])), f_cs(dm(A["q_lasts"]), dm(A["v_lasts"])), max(A["v_lasts"])
    if prim == "nodes.get_downstream_density":
        return f_np(npv(A["rho_firsts"])), f_cs(dm(A["rho_firsts"])), max(A["rho_firsts"])
    if prim == "links.get_flow":
        return f_np(npv(A["rho"]), npv(A["v"]), lanes), f_cs(dm(A["rho"]), dm(A["v"]), lanes), npv(A["rho"]) * npv(A["v"]) * lanes
    if prim == "links.step_density":
        sc = npv(A["rho"]) + T / lanes / L * (npv(A["q"]) + npv(A["q_up"]))
        return f_np(npv(A["rho"]), npv(A["q"]), npv(A["q_up"]), lanes, L, T), f_cs(dm(A["rho"]), dm(A["q"]), dm(A["q_up"]), lanes, L, T), sc
    if prim == "links.step_speed":
        v, vu, rho, rd, Veq = (npv(A[k]) for k in ("v", "v_up", "rho", "rho_down", "Veq"))
        tau, eta, kappa = A["tau"], A["eta"], A["kappa"]
        qr, de, ld, ph = A.get("q_ramp"), A.get("delta"), A.get("lanes_drop"), A.get("phi")
        sc = v + T / tau * (Veq + v) + T / L * v * (vu + v) + eta * T / tau / L * (rd + rho) / (rho + kappa)
        if qr is not None:
            sc[0] += de * T * qr * v[0] / (L * lanes * (rho[0] + kappa))
        if ld is not None:
            sc[-1] += abs(ph * T * ld * rho[-1] * v[-1] ** 2 / (L * lanes * rc))
        r1 = f_np(v.copy(), vu, rho, rd, Veq, lanes, L, tau, eta, kappa, T, None if qr is None else s(qr), de, ld, ph, rc if ld is not None else None)
        r2 = f_cs(dm(A["v"]), dm(A["v_up"]), dm(A["rho"]), dm(A["rho_down"]), dm(A["Veq"]), lanes, L, tau, eta, kappa, T,
                  None if qr is None else dm(qr), de, ld, ph, rc if ld is not None else None)
        return r1, r2, sc
    if prim == "links.Veq":
        return f_np(npv(A["rho"]), vf, rc, a), f_cs(dm(A["rho"]), vf, rc, a), vf
    if prim == "links.controlled_Veq":
        return (f_np(npv(A["rho"]), npv(A["v_ctrl"]), A["vsl"], A["alpha"], vf, rc, a),
                f_cs(dm(A["rho"]), dm(A["v_ctrl"]), A["vsl"], A["alpha"], vf, rc, a), vf)
    if prim == "origins.step_queue":
        return f_np(s(A["w"]), s(A["d"]), s(A["q"]), T), f_cs(dm(A["w"]), dm(A["d"]), dm(A["q"]), T), A["w"] + T * (A["d"] + A["q"])
    if prim == "origins.get_mainstream_flow":
        vfirst = np.float64(A["v_first"])  # the element layer passes states["v"][0]
        r1 = f_np(s(A["d"]), s(A["w"]), s(A["v_ctrl"]), vfirst, rc, a, vf, lanes, T)
        r2 = f_cs(dm(A["d"]), dm(A["w"]), dm(A["v_ctrl"]), dm(A["v_first"]), rc, a, vf, lanes, T)
        return r1, r2, A["d"] + A["w"] / T
    if prim.startswith("origins.get_ramp_flow"):
        typ = prim.split(":")[1]
        r1 = f_np(s(A["d"]), s(A["w"]), A["C"], s(A["r"]), rm, np.float64(A["rho_first"]), rc, T, typ)
        r2 = f_cs(dm(A["d"]), dm(A["w"]), A["C"], dm(A["r"]), rm, dm(A["rho_first"]), rc, T, typ)
        return r1, r2, A["d"] + A["w"] / T
    if prim.startswith("origins.get_simplifiedramp_flow"):
        typ = prim.split(":")[1]
        r1 = f_np(s(A["qdes"]), s(A["d"]), s(A["w"]), A["C"], rm, np.float64(A["rho_first"]), rc, T, typ)
        r2 = f_cs(dm(A["qdes"]), dm(A["d"]), dm(A["w"]), A["C"], rm, dm(A["rho_first"]), rc, T, typ)
        return r1, r2, A["d"] + A["w"] / T
    if prim == "destinations.get_congestion_free_downstream_density":
        return f_np(np.float64(A["rho_last"]), rc), f_cs(dm(A["rho_last"]), rc), rm
    if prim == "destinations.get_congested_downstream_density":
        return f_np(np.float64(A["rho_last"]), s(A["rho_destination"]), rc), f_cs(dm(A["rho_last"]), dm(A["rho_destination"]), rc), rm
    if prim == "max":
        y = A["y"]
        return f_np(0 if y == 0 else npv(y), npv(A["x"])), f_cs(0 if y == 0 else dm(y), dm(A["x"])), 100.0
    if prim == "vcat":
        as_np = lambda p: npv(p) if isinstance(p, list) else p  # noqa: E731  scalars stay Python scalars (e.g. turn rates)
        as_cs = lambda p: dm(p) if isinstance(p, list) else p  # noqa: E731
        return f_np(*[as_np(p) for p in A["parts"]]), f_cs(*[as_cs(p) for p in A["parts"]]), 10.0
    raise ValueError(prim)


class _Recorder:
    """Captures the numpy arguments of the first call so that the very same objects can be passed again."""

    def __init__(self, f):
        self.f, self.calls = f, []

    def __call__(self, *a):
        self.calls.append(a)
        return self.f(*a)


class _RecordingEngine:
    def __init__(self, grp, name, rec):
        for g in ("nodes", "links", "origins", "destinations"):
            setattr(self, g, getattr(NP, g))
        holder = type("H", (), {})()
        for attr in dir(getattr(NP, grp)):
            if not attr.startswith("_"):
                setattr(holder, attr, getattr(getattr(NP, grp), attr))
        setattr(holder, name, rec)
        setattr(self, grp, holder)


def evaluate_twice_numpy(prim, A):
    base = prim.split(":")[0]
    if "." not in base:
        return None
    grp, name = base.split(".")
    real = getattr(getattr(NP, grp), name)
    rec = _Recorder(real)
    r1 = evaluate(prim, A, _RecordingEngine(grp, name, rec))[0]
    if not rec.calls:
        return None
    args = rec.calls[0]
    r1 = np.array(r1, dtype=float, copy=True)
    snap = [a.copy() if isinstance(a, np.ndarray) else a for a in args]
    r2 = np.array(real(*args), dtype=float, copy=True)
    intact = all((np.array_equal(a, b, equal_nan=True) if isinstance(a, np.ndarray) else True) for a, b in zip(args, snap))
    return r1, r2, intact


def check_case(case, ctx):
    prim, A = case["prim"], case["args"]
    ctx.label("prim:" + prim, "scalar:" + A["scalar_as"])
    if prim == "var":
        a = guarded(ctx, "numpy:var", NP.var, "x", A["size"])
        for symt in ("SX", "MX"):
            b = guarded(ctx, f"casadi:var:{symt}", CasadiEngine(symt).var, "x", A["size"])
            if not crashed(a) and not crashed(b):
                if np.asarray(a).size != b.numel() or np.asarray(a).ndim != 1 or b.shape != (A["size"], 1):
                    ctx.fail("var:shape", f"var('x', {A['size']}): numpy shape {np.asarray(a).shape}, casadi {symt} shape {b.shape}")
        ctx.nontrivial = A["size"] <= 1
        return
    boundary = {0.0, A["rho_crit"], A["rho_max"], A["v_free"], math.inf, 1.0}
    flat = [x for k, v in A.items() if k not in ("rho_crit", "rho_max", "v_free", "a", "lanes", "L", "T", "n") and isinstance(v, (list, float, int))
            for x in (v if isinstance(v, list) else [v]) if isinstance(x, (int, float))]
    if any(x in boundary for x in flat):
        ctx.label("boundary")
        ctx.nontrivial = True
    if A["n"] == 1:
        ctx.label("len1")
        ctx.nontrivial = True
    if prim == "links.step_speed":
        ctx.label("speed:" + A["mode"])
    if prim == "links.controlled_Veq" and not A["vsl"]:
        ctx.label("vsl:empty")
    if prim == "origins.get_mainstream_flow":
        vlim = min(A["v_ctrl"], A["v_first"])
        vcrit = A["v_free"] * math.exp(-1 / A["a"])
        ctx.label("main:vlim=0" if vlim == 0 else "main:ratio<0.05" if vlim / A["v_free"] < 0.05 else "main:ratio>=0.05")
        ctx.label("main:speed-branch" if vlim < vcrit else "main:capacity-branch")
    r = guarded(ctx, prim, evaluate, prim, A)
    if crashed(r):
        return
    r1, r2, sc = r
    # the same primitive evaluated again from the same numpy argument objects (the element layer evaluates
    # e.g. an origin flow twice per step and re-uses user arrays across steps) must give the same value
    rep = guarded(ctx, prim + ":repeat", evaluate_twice_numpy, prim, A)
    if not crashed(rep) and rep is not None:
        a1, a2, intact = rep
        if not intact:
            ctx.label("numpy-arguments-modified")  # purity of the caller's arrays is C12's business, not judged here
        if not np.array_equal(np.asarray(a1, dtype=float), np.asarray(a2, dtype=float), equal_nan=True):
            ctx.fail(f"{prim}:numpy-not-repeatable", f"{prim}: second evaluation from the same argument objects gives {a2!r}, first gave {a1!r}")
    x = np.atleast_1d(np.asarray(r1, dtype=float)).reshape(-1)
    y = np.array(cs.DM(r2), dtype=float).reshape(-1)
    if x.shape != y.shape:
        ctx.fail(f"{prim}:shape", f"{prim}: numpy result has {x.size} entries, casadi {y.size}: {x} vs {y}")
        return
    scv = np.broadcast_to(np.abs(np.atleast_1d(np.asarray(sc, dtype=float)).reshape(-1)), x.shape) if np.size(sc) in (1, x.size) else np.full(x.shape, np.max(np.abs(sc)))
    for k in range(x.size):
        if not (math.isfinite(x[k]) and math.isfinite(y[k])):
            ctx.fail(f"{prim}:nonfinite", f"{prim}: entry {k}: numpy {x[k]!r}, casadi {y[k]!r} for admissible arguments {A}")
            continue
        tol = 1e-10 * (abs(x[k]) + abs(y[k]) + (scv[k] if math.isfinite(scv[k]) else 0.0)) + 1e-12
        if abs(x[k] - y[k]) > tol:
            ctx.fail(f"{prim}:value", f"{prim}: entry {k}: numpy {x[k]!r} != casadi {y[k]!r}")
