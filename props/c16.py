"""C16 - symbolic model parameters behave like the numbers substituted for them.

Differential: the same network compiled (same symbol type, compactness, more_out) once with a drawn
subset of parameters replaced by declared symbols and once with plain numbers; evaluated at the
parameter values both must agree; the parameters must be the trailing arguments in declared order
(level 0) or one stacked vector p (levels >= 1); no free symbols.
"""
from hypothesis import strategies as st

from lib import cas, gen_nets, layout, refmodel
from lib import spec as S
from lib.harness import crashed, guarded
from props import c03

ID = "C16"
RULE = (
    "case = valid growth-grammar network x symbol type x compact -1..3 x more_out x 1..6 parameters made symbolic "
    "and declared in a drawn order, among: rho_crit / v_free / a of any link, capacity of any ramp (incl. the unused "
    "capacity of an 'unlimited' simplified ramp), tau, eta, kappa, T (declared as 'T' or under another key), delta and "
    "phi when given (used by the topology or not) x 2 admissible states. Non-trivial = >=2 symbolic parameters of "
    "different kinds and finite outputs. Distinct = SHA-1 of the case."
)
BUDGET = {"quick": {"examples": 200, "shards": 4}, "thorough": {"fuzz_runs": 3000, "examples": 2000, "shards": 16}}
EXPECTED_LABELS = ("vector-parameter", "restep", "engine:SX", "engine:MX", "compact:-1", "compact:0", "compact:1", "compact:2", "compact:3", "more_out", "par:rho_crit",
                   "par:v_free", "par:a", "par:C", "par:tau", "par:eta", "par:kappa", "par:T", "par:delta", "par:phi",
                   "unused-parameter", "lane-drop>0", "interior-ramp")
ASSUMPTIONS = ["tolerance 1e-12 x term scale between the two compiled functions", "layout of the non-parameter arguments from lib/layout.py"]


@st.composite
def cases(draw):
    sp = draw(gen_nets.specs(force_delta_phi=draw(st.booleans())))
    return {
        "spec": sp,
        "states": [draw(gen_nets.states(sp)) for _ in range(2)],
        "sym": draw(st.sampled_from(["SX", "MX"])),
        "compact": draw(st.integers(-1, 3)),
        "more_out": draw(st.booleans()),
        "opts": [],
        "sympars": draw(c03.sympar_choice(sp)),
        "restep": draw(st.integers(0, 3)) == 0,
    }


def strategy(tier):
    return cases()


def unused(sp, eid, pname):
    if pname == "C":
        return next(o for o in sp["origins"] if o["id"] == eid)["kind"] == "simp_unl"
    if pname == "delta":
        return not any(o["kind"] in S.RAMP_KINDS and S.in_links(sp, o["node"]) for o in sp["origins"])
    if pname == "phi":
        for l in sp["links"]:
            outs = S.out_links(sp, l["down"])
            if len(outs) == 1 and outs[0]["lam"] != l["lam"] and S.dest_at(sp, l["down"]) is None:
                return False
        return True
    return False


def check_case(case, ctx):
    sp, sym, compact, more_out = case["spec"], case["sym"], case["compact"], case["more_out"]
    level = min(max(compact, 0), 2)
    ctx.label(*S.features(sp))
    ctx.label("engine:" + sym, f"compact:{compact}")
    if more_out:
        ctx.label("more_out")
    kinds = set()
    for eid, pname in case["sympars"]:
        ctx.label("par:" + pname)
        kinds.add(pname)
        if eid == "$vector":
            ctx.label("vector-parameter")
            continue
        if unused(sp, eid, pname):
            ctx.label("unused-parameter")
    overrides, par_over, parameters, values = c03.make_symbolic(sp, sym, case["sympars"])
    params = [(k, v.numel()) for k, v in parameters.items()]
    declared = list(parameters.items())
    if case.get("restep"):
        ctx.label("restep")
    stp = guarded(ctx, "step-symbolic", cas.Stepped, sp, sym, (), overrides, par_over, None, None, bool(case.get("restep")))
    if crashed(stp):
        return
    r = guarded(ctx, "compile-symbolic", stp.to_function, compact, more_out, parameters)
    rn = guarded(ctx, "compile-numeric", c03.compile_case, dict(case, sympars=None))
    if crashed(r) or crashed(rn):
        return
    F = r
    lay = layout.Layout(sp, layout.element_order(stp.net, stp.els))
    Fn, layn, _, _ = rn
    # the declared-parameters dictionary belongs to the caller
    now = list(parameters.items())
    if [k for k, _ in now] != [k for k, _ in declared] or any(a[1] is not b[1] for a, b in zip(now, declared)):
        # not judged by itself (C16 does not speak about the dictionary); what a user would see is judged below:
        # compiling again with the dictionary they declared must still work and agree
        ctx.label("parameters-dict-modified")
    # compiling again from the same step with the same dictionary (another level) must work and agree
    other = {0: 2, 1: 0, 2: 1}[level]
    F2 = guarded(ctx, "compile-symbolic-again", stp.to_function, other, more_out, parameters)
    if F.get_free():
        ctx.fail("free-symbols", f"function with declared parameters has free symbols {F.get_free()}")
    # trailing arguments
    base = [n for n, _ in lay.inputs(level)]
    names = F.name_in()
    keys = [k for k, _ in params]
    if level <= 0:
        exp = base + keys
        if names != exp:
            ctx.fail("parameters:order:level0", f"arguments {names}, expected the parameters {keys} as trailing arguments in declared order after {base}")
            return
        if [F.numel_in(len(base) + k) for k in range(len(keys))] != [n_ for _, n_ in params]:
            ctx.fail("parameters:size:level0", f"parameter argument sizes {[F.numel_in(len(base) + k) for k in range(len(keys))]}")
            return
    else:
        if names != base + ["p"]:
            ctx.fail(f"parameters:names:level{level}", f"arguments {names}, expected {base + ['p']}")
            return
        if F.numel_in(len(base)) != sum(n_ for _, n_ in params):
            ctx.fail(f"parameters:size:level{level}", f"stacked parameter vector has {F.numel_in(len(base))} entries, {len(keys)} parameters were declared: {keys}")
            return
    finite = True
    for state in case["states"]:
        a = guarded(ctx, "call-symbolic", c03.call, F, lay, compact, state, params, values, more_out)
        b = guarded(ctx, "call-numeric", c03.call, Fn, layn, compact, state, [], {}, more_out)
        if crashed(a) or crashed(b):
            continue
        bad, fin = refmodel.compare_pair(a[0], b[0], refmodel.scales(sp, state), rtol=1e-12)
        finite &= fin
        for (i, var, k, x, y, sc, why) in bad:
            ctx.fail(f"value:{why}:{var}:{c03.kind_of(sp, i)}", f"{var}+ of {i}[{k}]: symbolic-parameter function {x!r}, numeric-parameter function {y!r} (parameters {case['sympars']})")
        if more_out:
            for i in b[1]:
                import numpy as np

                if not np.allclose(a[1][i], b[1][i], rtol=1e-12, atol=1e-12, equal_nan=True):
                    ctx.fail("value:q", f"q of {i}: {a[1][i]!r} vs {b[1][i]!r}")
            for i in b[2]:
                x, y = a[2][i], b[2][i]
                if not (x == y or abs(x - y) <= 1e-12 * (abs(x) + abs(y)) or (x != x and y != y)):
                    ctx.fail("value:q_o", f"q_o of {i}: {x!r} vs {y!r}")
    if not crashed(F2):
        state = case["states"][0]
        a = guarded(ctx, "call-symbolic-again", c03.call, F2, lay, other, state, params, values, more_out)
        b = guarded(ctx, "call-numeric", c03.call, Fn, layn, compact, state, [], {}, more_out)
        if not crashed(a) and not crashed(b):
            bad, _ = refmodel.compare_pair(a[0], b[0], refmodel.scales(sp, state), rtol=1e-12)
            for (i, var, k, x, y, sc, why) in bad:
                ctx.fail(f"again:value:{why}:{var}", f"second to_function from the same step: {var}+ of {i}[{k}]: {x!r} vs numeric-parameter function {y!r}")
    if finite and len(kinds) >= 2:
        ctx.nontrivial = True
