"""C17 - origin flows respect demand, capacity and space limits; queues stay non-negative.

Invariant oracle (no reference model) on
 (a) the origin-flow primitives of both engines (NumPy arrays, CasADi DM, SX/MX functions),
 (b) stepped networks: the origin flow recovered from the queue update, from the density balance of
     the fed link, and the q_o output of the compiled function.
"""
import math

from hypothesis import strategies as st

from lib import cas, gen_nets, layout
from lib import spec as S
from lib.gen_nets import fl, pos
from lib.harness import crashed, guarded
from lib.sut import CasadiEngine, NumpyEngine, cs, np

ID = "C17"
RULE = (
    "primitive cases: origin kind in {mainstream, metered in, metered out, simplified limited} x engine in {numpy "
    "(1,)-arrays, casadi DM, SX function, MX function} x (w, d, control, rho_first, v_first, parameters) with corner "
    "bias (w=0, d=0, r in {0,1}, rho_first in {rho_crit, rho_max}, v_first=0, limit +inf, limiting speed exactly equal to the critical speed). network cases: valid "
    "growth-grammar network with queued origins x admissible state; NumPy step (flow recovered from w+ and from the "
    "fed link's density balance) and compiled function with more_out (q_o, w+). Non-trivial = a corner value is "
    "present or two of the limits (demand+queue/T, capacity, space, desired flow) are within 1% of each other. "
    "Distinct = SHA-1 of the case."
)
RULE += ' Closed origins (C=0) are a quarter of the primitive cases.'
BUDGET = {"quick": {"examples": 1500, "shards": 4}, "thorough": {"fuzz_runs": 3000, "examples": 8000, "shards": 16}}
EXPECTED_LABELS = ("prim:main", "prim:ramp_in", "prim:ramp_out", "prim:simp_lim", "engine:numpy", "engine:DM", "engine:SX", "engine:MX",
                   "network", "corner", "close-limits", "rho_first=rho_max", "interior-ramp", "origin:main", "origin:ramp_in",
                   "origin:ramp_out", "origin:simp_lim")
ASSUMPTIONS = ["tolerance 1e-9 x (d + w/T + capacity)"]
KINDS = ("main", "ramp_in", "ramp_out", "simp_lim")


@st.composite
def prim_cases(draw):
    rho_max = draw(pos(80, 300))
    rho_crit = draw(pos(10, 0.7 * rho_max))
    v_free = draw(pos(30, 160))
    A = dict(kind=draw(st.sampled_from(KINDS)), engine=draw(st.sampled_from(["numpy", "DM", "SX", "MX"])), rho_max=rho_max, rho_crit=rho_crit,
             v_free=v_free, a=draw(st.one_of(pos(0.8, 4), st.sampled_from([1.0, 2.0]))), lanes=draw(st.integers(1, 5)),
             T=draw(pos(1, 60)) / 3600, C=draw(st.one_of(pos(200, 5000), pos(200, 5000), pos(200, 5000), st.just(0.0))), w=draw(fl(0, 500)), d=draw(fl(0, 8000)),
             rho_first=draw(fl(0, rho_max, (rho_crit, rho_max))), v_first=draw(fl(0, 1.5 * v_free, (v_free,))))
    k = A["kind"]
    if k == "main" and draw(st.integers(0, 4)) == 0:
        # exact tie: the limiting speed equals the critical speed as the engines themselves compute it
        vc = [float(np.asarray(NumpyEngine().links.Veq(rho_crit, v_free, rho_crit, A["a"]))),
              float(CasadiEngine("SX").links.Veq(cs.DM(rho_crit), v_free, rho_crit, A["a"]))]
        tie = draw(st.sampled_from(vc))
        if draw(st.booleans()):
            A["v_first"] = tie
        else:
            A["v_first"] = max(A["v_first"], tie)
            A["tie_ctrl"] = tie
    A["ctrl"] = A.pop("tie_ctrl") if "tie_ctrl" in A else draw(fl(0, 200, (math.inf,))) if k == "main" else draw(fl(0, 1, (1,))) if k.startswith("ramp") else draw(fl(0, 6000, (math.inf,)))
    if draw(st.integers(0, 3)) == 0:  # make two limits coincide
        supply = A["d"] + A["w"] / A["T"]
        if k != "main" and supply > 0:
            A["C"] = supply * draw(st.sampled_from([1.0, 0.999, 1.001]))
    return {"mode": "prim", "args": A}


@st.composite
def net_cases(draw):
    sp = draw(gen_nets.specs(origin_kinds=("main", "ramp_in", "ramp_out", "simp_lim", "ideal")))
    return {"mode": "net", "spec": sp, "states": [draw(gen_nets.states(sp)) for _ in range(2)], "sym": draw(st.sampled_from([None, "SX", "MX"])),
            "compact": draw(st.integers(0, 2))}


def strategy(tier):
    return st.one_of(prim_cases(), prim_cases(), net_cases())


def capacity(kind, lanes, v_free, a, rho_crit, C):
    if kind == "main":
        return lanes * v_free * math.exp(-1.0 / a) * rho_crit
    return C


def bounds(ctx, tag, kind, q, supply, cap, at_rho_max, extra=""):
    eps = 1e-9 * (abs(supply) + abs(cap)) + 1e-9
    if not math.isfinite(q):
        ctx.fail(f"{tag}:{kind}:nonfinite", f"{tag}: flow of {kind} origin is {q!r}{extra}")
        return
    if q < -eps:
        ctx.fail(f"{tag}:{kind}:negative", f"{tag}: flow of {kind} origin is negative: {q!r}{extra}")
    if q > supply + eps:
        ctx.fail(f"{tag}:{kind}:exceeds-demand+queue/T", f"{tag}: flow of {kind} origin {q!r} exceeds demand + queue/T = {supply!r}{extra}")
    if q > cap + eps:
        ctx.fail(f"{tag}:{kind}:exceeds-capacity", f"{tag}: flow of {kind} origin {q!r} exceeds its capacity {cap!r}{extra}")
    if at_rho_max and kind != "main" and abs(q) > eps:
        ctx.fail(f"{tag}:{kind}:nonzero-at-rho_max", f"{tag}: flow of {kind} origin is {q!r} although the first segment is at maximum density{extra}")


def eval_prim(A):
    k, T = A["kind"], A["T"]
    eng = A["engine"]
    E = NumpyEngine() if eng == "numpy" else CasadiEngine("SX" if eng in ("DM", "SX") else "MX")
    names = ["d", "w", "ctrl", "rho_first", "v_first"]
    vals = [A[n] for n in names]

    def f(d, w, ctrl, rho_first, v_first):
        if k == "main":
            return E.origins.get_mainstream_flow(d, w, ctrl, v_first, A["rho_crit"], A["a"], A["v_free"], A["lanes"], T)
        if k in ("ramp_in", "ramp_out"):
            return E.origins.get_ramp_flow(d, w, A["C"], ctrl, A["rho_max"], rho_first, A["rho_crit"], T, k[5:])
        return E.origins.get_simplifiedramp_flow(ctrl, d, w, A["C"], A["rho_max"], rho_first, A["rho_crit"], T, "limited")

    if eng == "numpy":
        arrs = [np.array([v]) for v in vals[:3]] + [np.float64(vals[3]), np.float64(vals[4])]
        keep = [a.copy() if isinstance(a, np.ndarray) else a for a in arrs]
        q1 = f(*arrs)
        q2 = f(*arrs)  # a second evaluation from the same arrays (the element layer evaluates the flow twice per step)
        same_inputs = all(np.array_equal(a, b) for a, b in zip(arrs, keep))
        qn = E.origins.step_queue(arrs[1], arrs[0], q2, T)
        return float(np.asarray(q1).reshape(-1)[0]), float(np.asarray(q2).reshape(-1)[0]), float(np.asarray(qn).reshape(-1)[0]), same_inputs
    if eng == "DM":
        q = f(*[cs.DM(v) for v in vals])
        wn = E.origins.step_queue(cs.DM(A["w"]), cs.DM(A["d"]), q, T)
        return float(q), float(q), float(wn), True
    XX = E.sym_type
    syms = [XX.sym(n) for n in names]
    q = f(*syms)
    wn = E.origins.step_queue(syms[1], syms[0], q, T)
    F = cs.Function("f", syms, [q, wn])
    r = F(*vals)
    return float(r[0]), float(r[0]), float(r[1]), True


def check_prim(ctx, A):
    k = A["kind"]
    ctx.label("prim:" + k, "engine:" + A["engine"])
    supply = A["d"] + A["w"] / A["T"]
    cap = capacity(k, A["lanes"], A["v_free"], A["a"], A["rho_crit"], A["C"])
    corner = (A["w"] == 0 or A["d"] == 0 or A["ctrl"] in (0.0, 1.0, math.inf) or A["rho_first"] in (A["rho_crit"], A["rho_max"]) or A["v_first"] == 0)
    at_max = A["rho_first"] == A["rho_max"]
    if A["C"] == 0:
        ctx.label("closed-origin:C=0")
    if at_max:
        ctx.label("rho_first=rho_max")
    if corner:
        ctx.label("corner")
    lims = [supply, cap] + ([A["ctrl"]] if k == "simp_lim" else [])
    close = any(abs(x - y) <= 0.01 * max(abs(x), abs(y)) for i, x in enumerate(lims) for y in lims[i + 1:] if math.isfinite(x) and math.isfinite(y) and max(x, y) > 0)
    if close:
        ctx.label("close-limits")
    ctx.nontrivial = corner or close
    r = guarded(ctx, f"prim:{k}:{A['engine']}", eval_prim, A)
    if crashed(r):
        return
    q1, q2, wn, same_inputs = r
    tag = A["engine"]
    bounds(ctx, tag, k, q1, supply, cap, at_max)
    bounds(ctx, tag + ":second-evaluation", k, q2, supply, cap, at_max)
    if not same_inputs:
        ctx.label("inputs-modified")  # purity is C12's business; here only the bounds of both evaluations are judged
    if wn < -1e-9 * (A["w"] + A["T"] * supply) - 1e-9:
        ctx.fail(f"{tag}:{k}:negative-next-queue", f"{tag}: next queue {wn!r} is negative for w={A['w']!r}, d={A['d']!r}, q={q2!r}")


def check_net(ctx, case):
    sp = case["spec"]
    ctx.label("network", *S.features(sp))
    T = sp["pars"]["T"]
    F = lay = None
    if case["sym"]:
        r = guarded(ctx, "compile", cas.compile_net, sp, case["sym"], case["compact"], True)
        if not crashed(r):
            F, net, els = r
            lay = layout.Layout(sp, layout.element_order(net, els))
            ctx.label("engine:" + case["sym"])
    for state in case["states"]:
        got = guarded(ctx, "numpy-step", S.step_numpy, sp, state)
        rep = None
        if F is not None:
            def call():
                res = F(*lay.args(case["compact"], state))
                return lay.parse(case["compact"], list(res) if isinstance(res, (list, tuple)) else [res], True)
            rep = guarded(ctx, "call", call)
        for o in sp["origins"]:
            k = o["kind"]
            if k not in KINDS:
                continue
            l = S.out_links(sp, o["node"])[0]
            s, ls = state[o["id"]], state[l["id"]]
            supply = s["d"][0] + s["w"][0] / T
            cap = capacity(k, l["lam"], l["v_free"], l["a"], l["rho_crit"], o["C"])
            at_max = ls["rho"][0] == l["rho_max"]
            if at_max or s["w"][0] == 0 or s["d"][0] == 0 or ls["v"][0] == 0:
                ctx.nontrivial = True
                ctx.label("corner")
            if not crashed(got):
                nxt = got[0]
                w1 = float(nxt[o["id"]]["w"][0])
                q_w = s["d"][0] - (w1 - s["w"][0]) / T
                bounds(ctx, "numpy-step:queue", k, q_w, supply, cap, at_max, f" (recovered from w+ of {o['id']})")
                if w1 < -1e-9 * (s["w"][0] + T * supply) - 1e-9:
                    ctx.fail(f"numpy-step:{k}:negative-next-queue", f"NumPy step: next queue of {o['id']} = {w1!r}")
                ins = S.in_links(sp, o["node"])
                c = l["lam"] * l["L"] / T
                q_l = (float(nxt[l["id"]]["rho"][0]) - ls["rho"][0]) * c + ls["rho"][0] * ls["v"][0] * l["lam"] - sum(
                    state[li["id"]]["rho"][-1] * state[li["id"]]["v"][-1] * li["lam"] for li in ins)
                slack = 1e-9 * (c * (abs(float(nxt[l["id"]]["rho"][0])) + ls["rho"][0]) + sum(state[li["id"]]["rho"][-1] * state[li["id"]]["v"][-1] * li["lam"] for li in ins))
                if math.isfinite(q_l):
                    bounds(ctx, "numpy-step:fed-link", k, q_l, supply + slack, cap + slack, False, f" (recovered from the density balance of {l['id']})")
            if rep is not None and not crashed(rep):
                nxt, q, qo = rep
                bounds(ctx, f"{case['sym']}-function:q_o", k, qo[o["id"]], supply, cap, at_max)
                w1 = float(nxt[o["id"]]["w"][0])
                if w1 < -1e-9 * (s["w"][0] + T * supply) - 1e-9:
                    ctx.fail(f"{case['sym']}-function:{k}:negative-next-queue", f"compiled function: next queue of {o['id']} = {w1!r}")


def check_case(case, ctx):
    if case["mode"] == "prim":
        check_prim(ctx, case["args"])
    else:
        check_net(ctx, case)
