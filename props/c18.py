"""C18 - neutral controls reproduce the uncontrolled model; limits never raise speeds.

Metamorphic relations on paired networks (controlled element vs plain / neutral element) from
identical states, on the NumPy engine and through compiled SX/MX functions:
  vsl-neutral : LinkWithVsl with all limits +inf (or no limited segment)  ==  plain Link
  vsl-finite  : finite limits: limited segments' next speed <= plain, every other entry unchanged
  in-vs-out   : metered ramp 'in' and 'out' variants coincide at metering rate 1
  simp-vs-ramp: limited simplified ramp with unbounded desired flow == metered ramp with rate 1
  main-inf    : mainstream origin with limit +inf == limit at (or above) the first-segment speed
"""
import copy
import math

from hypothesis import strategies as st

from lib import cas, gen_nets, layout, refmodel
from lib import spec as S
from lib.gen_nets import fl, pos
from lib.harness import crashed, guarded

ID = "C18"
RULE = (
    "case = valid growth-grammar network in which one element is made the controlled element of a drawn relation "
    "(vsl-neutral, vsl-finite, in-vs-out, simp-vs-ramp, main-inf) x state (admissible in 3/4 of the cases; otherwise with negative entries and densities above the maximum - the relations are stated for all states) x subset of positivity options x engine {numpy, SX, MX}; VSL "
    "segment sets are arbitrary subsets (empty, non-contiguous, all). Non-trivial = the controlled element has an "
    "active branch in the non-neutral reading (a limit below the equilibrium speed; origin flow not demand-limited; "
    "first-segment speed below the critical speed). Distinct = SHA-1 of the case."
)
BUDGET = {"quick": {"examples": 300, "shards": 4}, "thorough": {"fuzz_runs": 3000, "examples": 3000, "shards": 16}}
RELS = ("vsl-neutral", "vsl-finite", "in-vs-out", "simp-vs-ramp", "main-inf")
EXPECTED_LABELS = tuple("rel:" + r for r in RELS) + ("opts", "inadmissible-values", "engine:numpy", "engine:SX", "engine:MX", "vsl:noncontiguous", "vsl:empty-set",
                                                     "active", "interior-ramp")
ASSUMPTIONS = ["tolerance 1e-12 x term scale for equalities and for the 'never increases' inequality"]


@st.composite
def cases(draw):
    sp = draw(gen_nets.specs(min_ops=1))
    rel = draw(st.sampled_from(RELS))
    if rel in ("in-vs-out", "simp-vs-ramp", "main-inf") and not sp["origins"]:
        rel = "vsl-finite"
    wild = draw(st.integers(0, 3)) == 0
    state = draw(gen_nets.states(sp, negative=wild, finite_only=False))
    if wild:  # also densities above the maximum
        for l in sp["links"]:
            if draw(st.booleans()):
                state[l["id"]]["rho"][0] = l["rho_max"] * draw(pos(1.0, 1.3))
    tgt = None
    if rel.startswith("vsl"):
        l = sp["links"][draw(st.integers(0, len(sp["links"]) - 1))]
        if draw(st.booleans()):  # prefer a long link so that non-contiguous sign sets are possible
            l = max(sp["links"], key=lambda x: x["N"])
        tgt = l["id"]
        sub = sorted(draw(st.sets(st.integers(0, l["N"] - 1), min_size=0 if rel == "vsl-neutral" else 1, max_size=l["N"])))
        l["vsl"], l["alpha"] = sub, draw(st.one_of(fl(0, 0.5), fl(-0.3, 0.0)))  # also enforced limits (negative alpha)
        if rel == "vsl-neutral":
            state[tgt]["v_ctrl"] = [math.inf] * len(sub)
        else:
            # limits anywhere in [0, 1.2 v_free], or close to the segment's own equilibrium speed (where the
            # compliance factor decides whether the limit binds)
            from lib import refmodel as _rm

            state[tgt]["v_ctrl"] = [
                (_rm.veq(max(state[tgt]["rho"][k_], 0.0), l) * draw(pos(0.6, 1.15))) if draw(st.booleans()) else draw(fl(0, 1.2 * l["v_free"]))
                for k_ in sub
            ]
    else:
        if rel == "main-inf":
            cands = [o for o in sp["origins"] if not S.in_links(sp, o["node"])] or None
            if cands is None:
                rel = "in-vs-out"
        if rel == "main-inf":
            o = cands[draw(st.integers(0, len(cands) - 1))]
            o["kind"] = "main"
            l = S.out_links(sp, o["node"])[0]
            state[o["id"]] = {"w": [draw(fl(0, 500))], "d": [draw(fl(0, 8000))], "v_ctrl": [math.inf]}
            v1 = state[l["id"]]["v"][0]
            # any limit at or above the first-segment speed (raw, and clamped at zero when positive_init_speed is on)
            state["$other"] = {"v_ctrl": [max(v1, 0.0) + abs(v1) * draw(fl(0, 1))]}
        else:
            o = sp["origins"][draw(st.integers(0, len(sp["origins"]) - 1))]
            o["kind"] = "ramp_in" if rel == "in-vs-out" else "simp_lim"
            state[o["id"]] = {"w": [draw(fl(0, 500))], "d": [draw(fl(0, 8000))]}
            if rel == "in-vs-out":
                state[o["id"]]["r"] = [1.0]
            else:
                state[o["id"]]["q"] = [math.inf]
        tgt = o["id"]
    opts = draw(st.one_of(st.just([]), st.just([]), st.lists(st.sampled_from(S.OPT_NAMES), unique=True, max_size=3).map(sorted)))
    if wild and rel.startswith("vsl") and draw(st.booleans()):
        opts = sorted(set(opts) | {draw(st.sampled_from(["positive_init_speed", "positive_init_density"]))})
    return {"spec": sp, "state": state, "rel": rel, "target": tgt, "engine": draw(st.sampled_from(["numpy", "SX", "MX"])), "opts": opts, "wild": wild}


def strategy(tier):
    return cases()


def other_side(sp, state, rel, tgt):
    sp2, st2 = copy.deepcopy(sp), {i: {k: list(v) for k, v in s.items()} for i, s in state.items() if i != "$other"}
    if rel.startswith("vsl"):
        l = next(l for l in sp2["links"] if l["id"] == tgt)
        l["vsl"], l["alpha"] = None, None
        st2[tgt].pop("v_ctrl", None)
    elif rel == "in-vs-out":
        next(o for o in sp2["origins"] if o["id"] == tgt)["kind"] = "ramp_out"
    elif rel == "simp-vs-ramp":
        next(o for o in sp2["origins"] if o["id"] == tgt)["kind"] = "ramp_out"
        st2[tgt].pop("q")
        st2[tgt]["r"] = [1.0]
    else:
        st2[tgt]["v_ctrl"] = list(state["$other"]["v_ctrl"])
    return sp2, st2


def run(ctx, sp, state, eng, tag, opts=()):
    if eng == "numpy":
        r = guarded(ctx, f"{tag}:numpy-step", S.step_numpy, sp, state, opts)
        return r if crashed(r) else r[0]
    r = guarded(ctx, f"{tag}:compile", cas.compile_net, sp, eng, 0, False, opts)
    if crashed(r):
        return r
    F, net, els = r
    lay = layout.Layout(sp, layout.element_order(net, els))

    def call():
        res = F(*lay.args(0, state))
        return lay.parse(0, list(res) if isinstance(res, (list, tuple)) else [res])[0]

    return guarded(ctx, f"{tag}:call", call)


def check_case(case, ctx):
    sp, rel, tgt, eng = case["spec"], case["rel"], case["target"], case["engine"]
    state = {i: s for i, s in case["state"].items() if i != "$other"}
    ctx.label(*S.features(sp))
    ctx.label("rel:" + rel, "engine:" + eng)
    sp2, st2 = other_side(sp, case["state"], rel, tgt)
    opts = case.get("opts") or []
    if opts:
        ctx.label("opts")
    if case.get("wild"):
        ctx.label("inadmissible-values")
    a = run(ctx, sp, state, eng, "controlled", opts)
    b = run(ctx, sp2, st2, eng, "neutral", opts)
    if crashed(a) or crashed(b):
        return
    scales = refmodel.scales(sp2, st2)
    # activity of the controlled branch (for the non-trivial rule)
    _, _, labels = refmodel.ref_step(sp, state)
    if rel.startswith("vsl"):
        l = next(l for l in sp["links"] if l["id"] == tgt)
        sub = l["vsl"]
        if not sub:
            ctx.label("vsl:empty-set")
        if sub and sub != list(range(sub[0], sub[0] + len(sub))):
            ctx.label("vsl:noncontiguous")
        active = any((1 + l["alpha"]) * c < refmodel.veq(state[tgt]["rho"][k], l) for k, c in zip(sub, case["state"][tgt].get("v_ctrl", []))) if rel == "vsl-finite" else bool(
            labels & {"vsl:inactive"} or not sub)
    elif rel == "main-inf":
        l = S.out_links(sp, next(o for o in sp["origins"] if o["id"] == tgt)["node"])[0]
        active = state[l["id"]]["v"][0] < refmodel.veq(l["rho_crit"], l) and "main:speed-limited" in labels
    else:
        active = bool(labels & {"ramp:space", "ramp:capacity", "ramp:rate", "simp:space/capacity"})
    if active:
        ctx.label("active")
        ctx.nontrivial = True
    limited = set()
    if rel == "vsl-finite":
        limited = {(tgt, "v", k) for k in next(l for l in sp["links"] if l["id"] == tgt)["vsl"]}
    for i, vs in b.items():
        for var, arr in vs.items():
            g = a.get(i, {}).get(var)
            if g is None or len(g) != len(arr):
                ctx.fail(f"{rel}:{eng}:shape", f"{rel}: {var}+ of {i}: {g!r} vs {arr!r}")
                continue
            for k in range(len(arr)):
                x, y = float(g[k]), float(arr[k])
                sc = scales[i][var][k]
                if y != y or x != x:
                    # NaN (negative density under a real exponent): min/max treat NaN differently from arithmetic,
                    # so nothing is claimed about entries that are NaN on either side
                    ctx.count("nan_skipped")
                    continue
                if not math.isfinite(sc):
                    ctx.count("scale_nonfinite_skipped")
                    continue
                if not (math.isfinite(x) and math.isfinite(y)):
                    if x != y and (i, var, k) not in limited:
                        ctx.fail(f"{rel}:{eng}:nonfinite:{var}", f"{rel}: {var}+ of {i}[{k}]: controlled {x!r}, neutral {y!r}")
                    continue
                tol = 1e-12 * sc + 1e-300
                if (i, var, k) in limited:
                    if x > y + tol:
                        ctx.fail(f"{rel}:{eng}:limit-raises-speed", f"{rel}: a finite limit increased v+ of {i}[{k}] from {y!r} (plain link) to {x!r}")
                elif abs(x - y) > tol:
                    where = "target" if i == tgt else "other-element"
                    ctx.fail(f"{rel}:{eng}:{var}:{where}", f"{rel}: {var}+ of {i}[{k}] = {x!r} with the controlled element ({tgt}) but {y!r} with its neutral counterpart")
