"""C19 - a function is only produced for a fully initialised and stepped network.

Model-based stateful testing over histories of construction, per-element initialisation, stepping
and compilation.  Readiness model: every element with declared states/actions/disturbances is
initialised, and every element with states has been stepped since its last (re-)initialisation.
  not ready  => to_function must raise RuntimeError (no other exception type, no function)
  returns    => no free symbols, evaluates, and - when the last state-changing operation was a full
                network step - equals the NumPy twin of that most recent step (its parameters!).
Outcomes the property leaves open (raising although the model says ready) are labelled, not judged.
"""
import copy

from hypothesis import strategies as st

from lib import gen_nets, layout, refmodel
from lib import spec as S
from lib.harness import crashed, guarded
from lib.sut import CasadiEngine, cs, np

ID = "C19"
RULE = (
    "history over a valid growth-grammar network staged by its growth log (early part + late groups that keep "
    "validity): 2..10 operations among full net.step (engine-created symbols or the same caller-held symbols, one of "
    "3 parameter sets differing in T/tau/eta/kappa and options), init_vars of one element with fresh symbols, step of "
    "one element, adding the next late group (link / link+destination / source+link / ramp), replacing a destination or a queued origin by a fresh object on the same node, to_function at a drawn "
    "compactness level; SX or MX. Non-trivial = a compile after an add-after-step or a re-init-after-step, or after "
    ">=2 full steps. Distinct = SHA-1 of the case."
)
RULE += ' to_function is called on the stepping engine, on a fresh engine of the same symbol type, or on an engine of the other symbol type.'
BUDGET = {"quick": {"examples": 350, "shards": 4}, "thorough": {"fuzz_runs": 3000, "examples": 2500, "shards": 16}}
EXPECTED_LABELS = ("step_fail", "restep_all", "manual", "elstep:failed", "replace:dest", "replace:origin", "engine:SX", "engine:MX", "compile:not-ready:raised", "compile:ready:returned", "compile:after-add", "compile:after-reinit",
                   "compile:after-2-steps", "compile:before-any-step", "same-symbols-restep", "late:ramp", "late:link", "late:branch", "late:source",
                   "value-checked")
ASSUMPTIONS = ["re-initialisation always uses fresh engine variables (re-initialising with the same symbols would be a no-op)",
               "numeric value judged only when the last state-changing operation before the compile was a full network step",
               "twin = fresh network of the same elements stepped on the NumPy engine with the parameters of the most recent step"]
GROW_OK = ("branch", "source", "link", "ramp", "seed")


@st.composite
def cases(draw):
    log = []
    sp = draw(gen_nets.specs(max_ops=7, with_plan=False, growth_log=log, names=draw(st.sampled_from(["mixed", "mixed", "mixed", "clash"]))))
    # late groups: maximal suffix of growth operations that only add elements
    k = len(log)
    while k > 1 and log[k - 1]["op"] in GROW_OK:
        k -= 1
    n_late = draw(st.integers(0, min(3, len(log) - k)))
    late = log[len(log) - n_late:] if n_late else []
    groups = []
    for g in late:
        groups.append({"op": g["op"], "links": [f"L{e}" for e in g["edges"]],
                       "origins": [o["id"] for o in sp["origins"] if o["node"] in g["origins"]],
                       "dests": [d["id"] for d in sp["dests"] if d["node"] in g["dests"]]})
    all_ids = [e["id"] for grp in ("links", "origins", "dests") for e in sp[grp]]
    ops = []
    for _ in range(draw(st.integers(2, 10))):
        c = draw(st.integers(0, 9))
        if c <= 2:
            ops.append(["step", draw(st.integers(0, 2)), draw(st.booleans())])
        elif c == 3:
            ops.append(["init", draw(st.sampled_from(all_ids))])
        elif c == 4:
            ops.append(["elstep", draw(st.sampled_from(all_ids))])
        elif c == 5:
            ops.append(draw(st.sampled_from([["add_late"], ["manual", draw(st.integers(0, 30)), draw(st.booleans())]])))
        elif c == 6 and draw(st.booleans()):
            ops.append(draw(st.sampled_from([["step_fail", draw(st.integers(0, 2))], ["restep_all", draw(st.integers(0, 2))]])))
        elif c == 6:
            ops.append(draw(st.sampled_from([["add_late"], ["replace", "dest", draw(st.integers(0, 5))], ["replace", "origin", draw(st.integers(0, 5))]])))
            if ops[-1][0] == "replace" and draw(st.booleans()):
                ops.append(["compile", draw(st.integers(0, 2))])
        else:
            ops.append(["compile", draw(st.integers(-1, 3))])
    ops.append(["compile", draw(st.integers(0, 2))])
    # which engine object compiles: the one that stepped, a fresh one of the same symbol type, or one of the other type
    for op in ops:
        if op[0] == "compile":
            op.append(draw(st.sampled_from(["same", "same", "fresh", "other"])))
    return {"spec": sp, "late": groups, "ops": ops, "sym": draw(st.sampled_from(["SX", "MX"])), "probe": draw(gen_nets.states(sp, finite_only=True))}


def strategy(tier):
    return cases()


def parset(sp, k):
    p = dict(S.pars_kwargs(sp))
    f = (1.0, 1.5, 0.6)[k]
    p["T"] = p["T"] * f
    p["tau"] = p["tau"] * (1.0, 0.8, 1.3)[k]
    p["eta"] = p["eta"] * (1.0, 1.2, 0.9)[k]
    opts = ([], ["positive_next_speed"], ["positive_next_density", "positive_next_queue"])[k]
    return p, opts


def subspec(sp, present):
    sub = copy.deepcopy(sp)
    for grp in ("links", "origins", "dests"):
        sub[grp] = [e for e in sub[grp] if e["id"] in present]
    used = {l["up"] for l in sub["links"]} | {l["down"] for l in sub["links"]} | {o["node"] for o in sub["origins"]} | {d["node"] for d in sub["dests"]}
    sub["nodes"] = [n for n in sub["nodes"] if n["id"] in used]
    sub["plan"] = []
    return sub


def declared(el):
    return bool(el._states or el._actions or el._disturbances)


def check_case(case, ctx):
    case = copy.deepcopy(case)  # the interpreter edits the spec (replacement of a destination changes its kind)
    sp, sym = case["spec"], case["sym"]
    ctx.label("engine:" + sym)
    eng = CasadiEngine(sym)
    XX = eng.sym_type
    late_ids = {i for g in case["late"] for grp in ("links", "origins", "dests") for i in g[grp]}
    present = {e["id"] for grp in ("links", "origins", "dests") for e in sp[grp]} - late_ids
    # build the early network with the real objects of the full spec (late ones are attached later)
    from lib.sut import Network, Node

    nodes = {n["id"]: Node(name=n["name"]) for n in sp["nodes"]}
    els = {}
    for l in sp["links"]:
        els[l["id"]] = S.make_link(l)
    for o in sp["origins"]:
        els[o["id"]] = S.make_origin(o)
    for d in sp["dests"]:
        els[d["id"]] = S.make_dest(d)
    net = Network("net")
    byid = {e["id"]: e for grp in ("links", "origins", "dests") for e in sp[grp]}

    def attach(i):
        e = byid[i]
        if i.startswith("L"):
            net.add_link(nodes[e["up"]], els[i], nodes[e["down"]])
        elif i.startswith("O"):
            net.add_origin(els[i], nodes[e["node"]])
        else:
            net.add_destination(els[i], nodes[e["node"]])

    for grp in ("links", "origins", "dests"):
        for e in sp[grp]:
            if e["id"] in present:
                guarded(ctx, "build", attach, e["id"])
    held = {}  # caller-held symbols, created once
    for i, s in case["probe"].items():
        held[i] = {var: XX.sym(f"{var}_{byid[i]['name']}", len(vals), 1) for var, vals in s.items()}
    init = {i: False for i in byid}
    fresh = {i: False for i in byid}
    last_full = None  # (parset index) of the most recent full step, if nothing changed state since
    n_steps = 0
    pending_late = list(case["late"])
    since = set()  # what happened since the last full step: "add", "reinit", "elstep"
    cur_pars, cur_opts = parset(sp, 0)
    for k, op in enumerate(case["ops"]):
        what = f"op {k} {op}"
        if op[0] == "step":
            valid = guarded(ctx, "is_valid", net.is_valid)
            if crashed(valid) or not valid[0]:
                raise AssertionError(f"staged network invalid: {valid}")
            cur_pars, cur_opts = parset(sp, op[1])
            ic = {els[i]: dict(held[i]) for i in present if i in held} if op[2] else None
            if op[2]:
                ctx.label("same-symbols-restep" if n_steps else "same-symbols-step")
            r = guarded(ctx, "net.step", lambda: net.step(init_conditions=ic, engine=eng, **S.opts_kwargs(cur_opts), **cur_pars))
            if crashed(r):
                return
            for i in present:
                init[i], fresh[i] = True, True
            last_full, since = op[1], set()
            n_steps += 1
        elif op[0] == "init":
            i = op[1]
            if i not in present:
                continue
            r = guarded(ctx, "init_vars", lambda: els[i].init_vars(engine=eng))
            if crashed(r):
                return
            init[i] = True
            if els[i]._states:
                fresh[i] = False
            since.add("reinit" if n_steps else "init")
        elif op[0] == "elstep":
            i = op[1]
            if i not in present or i.startswith("D") or not els[i]._states:
                continue
            if not all(init[j] for j in present if declared(els[j])):
                # stepping one element while it or a neighbour is uninitialised fails; a failed step is no step
                try:
                    els[i].step(net=net, engine=eng, **S.opts_kwargs(cur_opts), **cur_pars)
                except Exception:
                    ctx.label("elstep:failed")
                    since.add("failed-elstep")
                    continue
                # it did not need the uninitialised neighbour: a genuine step of this element
                if not init[i]:
                    continue
                fresh[i] = True
                since.add("elstep")
                continue
            r = guarded(ctx, "element.step", lambda: els[i].step(net=net, engine=eng, **S.opts_kwargs(cur_opts), **cur_pars))
            if crashed(r):
                return
            fresh[i] = True
            since.add("elstep")
        elif op[0] == "step_fail":
            # a full step that fails half-way (a model parameter of the links is missing): origins are stepped,
            # links are re-initialised but not stepped
            valid = guarded(ctx, "is_valid", net.is_valid)
            if crashed(valid) or not valid[0]:
                continue
            p2, o2 = parset(sp, op[1])
            bad = {k_: v for k_, v in p2.items() if k_ != "kappa"}
            try:
                net.step(engine=eng, **S.opts_kwargs(o2), **bad)
                continue  # did not fail (no link?): nothing to model
            except Exception:
                ctx.label("step_fail")
            for i in present:
                init[i] = True
                if els[i]._states:
                    fresh[i] = i.startswith("O")  # origins were stepped before the links failed
            cur_pars, cur_opts = p2, o2
            since.add("reinit" if n_steps else "init")
        elif op[0] == "restep_all":
            # the per-element API: every stateful element stepped again, without re-initialisation, with another
            # parameter set - equivalent to a full step on the same symbols
            if not all(init[j] for j in present if declared(els[j])) or not all(fresh[j] for j in present if els[j]._states):
                continue
            cur_pars, cur_opts = parset(sp, op[1])
            order_ = [i for i in sorted(present) if i.startswith("O") and els[i]._states] + [i for i in sorted(present) if i.startswith("L")]
            ok_ = True
            for i in order_:
                # element-level step: every option passed explicitly (Link.step_dynamics has its own defaults)
                flags = {name: (name in cur_opts) for name in S.OPT_NAMES}
                r = guarded(ctx, "element.step", lambda: els[i].step(net=net, engine=eng, **flags, **cur_pars))
                if crashed(r):
                    return
            ctx.label("restep_all")
            if not since:
                last_full = op[1]
            n_steps += 1
        elif op[0] == "manual":
            # the per-element API only: (optionally a step of one element that fails because nothing is initialised
            # yet,) then init_vars of every element, then a step of every stateful element except that one
            stateful = [i for i in sorted(present) if els[i]._states]
            if not stateful:
                continue
            valid = guarded(ctx, "is_valid", net.is_valid)
            if crashed(valid) or not valid[0]:
                continue
            skip = stateful[op[1] % len(stateful)]
            if op[2]:
                r = guarded(ctx, "init_vars", lambda: els[skip].init_vars(engine=eng))
                if crashed(r):
                    return
                init[skip], fresh[skip] = True, False
                try:
                    els[skip].step(net=net, engine=eng, **S.opts_kwargs(cur_opts), **cur_pars)
                    failed = False
                except Exception:
                    failed = True
                if failed:
                    ctx.label("elstep:failed")
            for i in sorted(present):
                r = guarded(ctx, "init_vars", lambda: els[i].init_vars(engine=eng))
                if crashed(r):
                    return
                init[i] = True
                if els[i]._states:
                    fresh[i] = False
            for i in stateful:
                if i == skip:
                    continue
                r = guarded(ctx, "element.step", lambda: els[i].step(net=net, engine=eng, **S.opts_kwargs(cur_opts), **cur_pars))
                if crashed(r):
                    return
                fresh[i] = True
            ctx.label("manual")
            since.add("reinit" if n_steps else "init")
        elif op[0] == "replace":
            # later attachments replace earlier ones: a fresh destination / origin object of the same kind on the same node
            grp = "dests" if op[1] == "dest" else "origins"
            cands = [e for e in sp[grp] if e["id"] in present and (grp == "dests" or e["kind"] != "ideal")]
            if not cands:
                continue
            e = cands[op[2] % len(cands)]
            old_id = e["id"]
            new_obj = S.make_dest(dict(e, kind="cong")) if grp == "dests" else S.make_origin(e)
            if grp == "dests":
                e["kind"] = "cong"
                r = guarded(ctx, "replace", net.add_destination, new_obj, nodes[e["node"]])
            else:
                r = guarded(ctx, "replace", net.add_origin, new_obj, nodes[e["node"]])
            if crashed(r):
                return
            els[old_id] = new_obj
            if old_id in held and grp == "dests":
                held[old_id] = {"d": XX.sym(f"d_{e['name']}", 1, 1)}
            if grp == "dests" and old_id not in case["probe"]:
                case["probe"][old_id] = {"d": [20.0]}
                held[old_id] = {"d": XX.sym(f"d_{e['name']}", 1, 1)}
            init[old_id], fresh[old_id] = False, False
            ctx.label("replace:" + op[1])
            since.add("add" if n_steps else "add-before-step")
        elif op[0] == "add_late":
            if not pending_late:
                continue
            g = pending_late.pop(0)
            ctx.label("late:" + g["op"])
            for grp in ("links", "origins", "dests"):
                for i in g[grp]:
                    r = guarded(ctx, "add", attach, i)
                    if crashed(r):
                        return
                    present.add(i)
            since.add("add" if n_steps else "add-before-step")
        else:
            compact = op[1]
            level = min(max(compact, 0), 2)
            ready = all(init[i] for i in present if declared(els[i])) and all(fresh[i] for i in present if els[i]._states)
            why = ("uninitialised" if not all(init[i] for i in present if declared(els[i])) else "unstepped")
            if n_steps == 0:
                ctx.label("compile:before-any-step")
            if "add" in since:
                ctx.label("compile:after-add")
                ctx.nontrivial = True
            if "reinit" in since:
                ctx.label("compile:after-reinit")
                ctx.nontrivial = True
            if n_steps >= 2:
                ctx.label("compile:after-2-steps")
                ctx.nontrivial = True
            who = op[2] if len(op) > 2 else "same"
            ceng = eng if who == "same" else CasadiEngine(sym if who == "fresh" else ("MX" if sym == "SX" else "SX"))
            ctx.label("compiled-by:" + who)
            try:
                F = ceng.to_function(net, compact=compact, more_out=False, **cur_pars)
                exc = None
            except RuntimeError as e:
                F, exc = None, e
            except Exception as e:
                if ready:
                    # the property only speaks about the not-ready case and about returned functions
                    ctx.label("compile:ready:raised-other(open)")
                else:
                    ctx.fail(f"not-ready:{why}:wrong-exception:{type(e).__name__}", f"{what}: network not ready ({why}) but to_function raised {type(e).__name__} instead of RuntimeError: {e}")
                continue
            if not ready:
                if F is not None:
                    s_ = "+".join(sorted(since)) or "-"
                    ctx.fail(f"not-ready:{why}:function-returned:{s_}", f"{what}: some element is {why} (since last full step: {sorted(since)}) but to_function returned {F}")
                else:
                    ctx.label("compile:not-ready:raised")
                continue
            if F is None:
                ctx.label("compile:ready:raised(open)")
                continue
            ctx.label("compile:ready:returned")
            if F.get_free():
                ctx.fail("returned:free-symbols", f"{what}: returned function has free symbols {F.get_free()}")
                continue
            sub = subspec(sp, present)
            lay = layout.Layout(sub, layout.element_order(net, {i: els[i] for i in present}))
            probe = {i: s for i, s in case["probe"].items() if i in present}
            if S.singular(sub, probe):
                continue

            def call():
                res = F(*lay.args(level, probe))
                return lay.parse(level, list(res) if isinstance(res, (list, tuple)) else [res])[0]

            got = guarded(ctx, "call", call)
            if crashed(got):
                continue
            if since or last_full is None:
                continue
            twin_sp = copy.deepcopy(sub)
            twin_sp["pars"].update({k_: v for k_, v in cur_pars.items()})
            exp = guarded(ctx, "twin", S.step_numpy, twin_sp, probe, cur_opts)
            if crashed(exp):
                continue
            ctx.label("value-checked")
            bad, _ = refmodel.compare_pair(got, exp[0], refmodel.scales(twin_sp, probe))
            for (i, var, kk, x, y, sc, whybad) in bad:
                ctx.fail(f"returned:stale:{var}", f"{what}: after {n_steps} full steps the function gives {var}+ of {i}[{kk}] = {x!r} but the most recent step (parameter set {last_full}) gives {y!r}")
