#!/venv/bin/python
"""Single entry point:  run.py <Cxx> --tier quick|thorough [--replay FILE]

exit 0 = property held on everything explored; 1 = violation (VIOLATION line printed);
2 = harness error (never a verdict about the code under test).
"""
import argparse
import os
import sys
import traceback

ROOT = os.path.dirname(os.path.abspath(__file__))


def main():
    ap = argparse.ArgumentParser()
    ap.add_argument("prop")
    ap.add_argument("--tier", default=os.environ.get("VERIF_TIER", "quick"), choices=["quick", "thorough"])
    ap.add_argument("--replay")
    ap.add_argument("--examples", type=int)
    ap.add_argument("--workers", type=int)
    ap.add_argument("--no-shrink", action="store_true")
    a = ap.parse_args()
    if os.environ.get("PYTHONHASHSEED") != "0":
        os.environ["PYTHONHASHSEED"] = "0"
        os.execv(sys.executable, [sys.executable] + sys.argv)
    os.chdir(ROOT)
    sys.path.insert(0, ROOT)
    try:
        seed = int(os.environ.get("VERIF_SEED", "1") or "1")
    except ValueError:
        seed = 1
    try:
        from lib import harness

        if a.replay:
            return harness.replay(a.prop.upper(), a.replay)
        return harness.run_property(
            a.prop.upper(), a.tier, seed, workers=a.workers, examples=a.examples, shrink=not a.no_shrink
        )
    except SystemExit:
        raise
    except BaseException:
        traceback.print_exc()
        print("HARNESS-ERROR", file=sys.stderr)
        return 2


if __name__ == "__main__":
    sys.exit(main())
