#!/venv/bin/python
"""Verify a seeded change and run checks against it.

usage: seedcheck.py <seed dir under seeded/> [Cxx ...] [--examples=N] [--tier=quick] [--ingest=/tmp/wt/Cxx/_seed:k]
 1. scratch copy of /repo (src, tests) outside /repo and /verif
 2. demo passes on the unchanged copy; patch applies; pinned baseline tests still pass; demo fails with the patch
 3. the listed checks are run with VERIF_REPO=<copy>; result recorded in meta.json ("verified", "results")
The scratch copy is removed afterwards; /repo is never touched.
"""
import json
import os
import shutil
import subprocess
import sys
import tempfile

ROOT = os.path.dirname(os.path.abspath(__file__))
sys.path.insert(0, ROOT)
import sensitivity  # noqa: E402


def run_demo(repo, demo):
    r = subprocess.run(["/venv/bin/python", demo], cwd=repo, env=dict(os.environ, PYTHONPATH=os.path.join(repo, "src")),
                       capture_output=True, text=True, timeout=600)
    return r.returncode, (r.stdout + r.stderr)[-400:]


def main():
    args = [a for a in sys.argv[1:] if not a.startswith("--")]
    flags = {a.split("=")[0]: (a.split("=", 1)[1] if "=" in a else True) for a in sys.argv[1:] if a.startswith("--")}
    name, props = args[0], args[1:]
    sdir = os.path.join(ROOT, "seeded", name)
    if "--ingest" in flags:
        src, k = flags["--ingest"].rsplit(":", 1)
        os.makedirs(sdir, exist_ok=True)
        shutil.copy(os.path.join(src, f"patch{k}.diff"), os.path.join(sdir, "patch.diff"))
        demo_src = open(os.path.join(src, f"demo{k}.py")).read().splitlines(True)
        # demos written in a scratch worktree may pin that path; the pin is not part of the demonstration
        demo_src = [l for l in demo_src if not (("/tmp/wt/" in l and ("assert" in l or "sys.path" in l)) or ("assert" in l and "__file__" in l))]
        open(os.path.join(sdir, "demo.py"), "w").writelines(demo_src)
        meta = json.load(open(os.path.join(src, f"meta{k}.json")))
        json.dump(meta, open(os.path.join(sdir, "meta.json"), "w"), indent=1)
    meta_path = os.path.join(sdir, "meta.json")
    meta = json.load(open(meta_path))
    tmp = tempfile.mkdtemp(prefix="seed.", dir="/tmp")
    try:
        repo = os.path.join(tmp, "repo")
        os.makedirs(repo)
        for item in ("src", "tests", "pyproject.toml"):
            s = os.path.join("/repo", item)
            if os.path.isdir(s):
                shutil.copytree(s, os.path.join(repo, item), ignore=shutil.ignore_patterns("__pycache__", "*.egg-info"))
            else:
                shutil.copy(s, repo)
        demo = os.path.join(sdir, "demo.py")
        ver = {}
        if "--skip-verify" not in flags:
            ver["demo_unpatched_exit"], _ = run_demo(repo, demo)
        r = subprocess.run(["patch", "-p1", "-s", "-i", os.path.join(sdir, "patch.diff")], cwd=repo, capture_output=True, text=True)
        if r.returncode != 0:
            print("PATCH-FAILED", r.stdout, r.stderr)
            return 2
        if "--skip-verify" not in flags:
            ver["baseline_missing_with_patch"] = sensitivity.baseline_ok(repo)
            ver["demo_patched_exit"], ver["demo_patched_tail"] = run_demo(repo, demo)
            ver["ok"] = ver["demo_unpatched_exit"] == 0 and ver["demo_patched_exit"] != 0 and not ver["baseline_missing_with_patch"]
            meta["verified"] = ver
        vcopy = os.path.join(tmp, "verif")
        shutil.copytree(ROOT, vcopy, ignore=shutil.ignore_patterns(".git", "evidence", "__pycache__", "seeded", ".deps"))
        results = meta.setdefault("results", {})
        extra = ["--examples", flags["--examples"]] if "--examples" in flags else []
        tier = flags.get("--tier", "quick")
        vseed = flags.get("--seed")
        for p in props:
            env = dict(os.environ, VERIF_REPO=repo)
            if vseed:
                env["VERIF_SEED"] = str(vseed)
            rr = subprocess.run([os.path.join(vcopy, "run.py"), p, "--tier", tier, "--no-shrink"] + extra, cwd=vcopy,
                                env=env, capture_output=True, text=True)
            if vseed:
                # reliability of detection across VERIF_SEED values: recorded separately, the main table keeps seed 1
                meta.setdefault("by_seed", {}).setdefault(str(vseed), {})[p] = rr.returncode
                continue
            sigs = [l.strip()[len("signature="):] for l in rr.stdout.splitlines() if l.strip().startswith("signature=")]
            results[p] = {"exit": rr.returncode, "tier": tier, "signatures": sigs[:5]}
            if rr.returncode in (0, 1) and not os.environ.get("VERIF_SEED") and not extra:
                meta.setdefault("by_seed", {}).setdefault("1", {})[p] = rr.returncode
            if rr.returncode == 2:
                results[p]["stderr"] = rr.stderr[-500:]
        meta["caught_by"] = sorted(p for p, v in results.items() if v["exit"] == 1)
        json.dump(meta, open(meta_path, "w"), indent=1)
        print(name, "verified" if meta.get("verified", {}).get("ok") else "NOT-VERIFIED", {p: (v["exit"], v["signatures"][:2]) for p, v in results.items() if p in props})
        return 0
    finally:
        shutil.rmtree(tmp, ignore_errors=True)


if __name__ == "__main__":
    sys.exit(main())
