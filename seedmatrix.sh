#!/bin/sh
# Runs every seeded change against every registered check (quick tier, full budget) and records the
# outcome in seeded/<id>/meta.json ("results", "caught_by").  usage: seedmatrix.sh [seed dirs...]
cd "$(dirname "$0")"
seeds=${@:-$(ls seeded)}
for s in $seeds; do
  ./seedcheck.py $s C01 C02 C03 C04 C05 C06 C07 C08 C09 C10 C11 C12 C13 C14 C15 C16 C17 C18 C19 --skip-verify
done
