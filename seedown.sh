#!/bin/sh
# Re-runs every seeded change against the check of the property it was written against (quick tier, full budget).
cd "$(dirname "$0")"
for s in ${@:-$(ls seeded)}; do ./seedcheck.py $s ${s%-*} --skip-verify; done
