#!/bin/sh
# Detection reliability: every seeded change against its own property's check at other VERIF_SEED values.
# usage: seedrel.sh "<verif seeds>" [seed dirs...]
cd "$(dirname "$0")"
vs=$1; shift
for s in ${@:-$(ls seeded)}; do for v in $vs; do ./seedcheck.py $s ${s%-*} --skip-verify --seed=$v >/dev/null 2>&1; done; echo "$s done"; done
