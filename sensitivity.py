#!/venv/bin/python
"""Sensitivity runner: apply one patch from mutants/ (or seeded/<id>/patch.diff) to a scratch copy of
/repo, confirm the pinned baseline tests still pass there, run the listed quick checks with VERIF_REPO
pointing at the copy and report which of them raise a VIOLATION.  The scratch copy is removed afterwards.

usage: sensitivity.py <patch> <Cxx> [<Cxx> ...] [--no-baseline] [--examples N] [--tier quick]
Never touches /repo; evidence/replay files written by these runs go to a scratch directory.
"""
import json
import os
import shutil
import subprocess
import sys
import tempfile

ROOT = os.path.dirname(os.path.abspath(__file__))
BASELINE = json.load(open("/root/.vp/BASELINE.json"))["stable_pass"] if os.path.exists("/root/.vp/BASELINE.json") else []


def baseline_ok(repo):
    xml = os.path.join(repo, "junit.xml")
    subprocess.run(
        ["/venv/bin/python", "-m", "pytest", "-q", "-p", "no:cacheprovider", "--timeout=900",
         "--continue-on-collection-errors", f"--junitxml={xml}"],
        cwd=repo, stdout=subprocess.DEVNULL, stderr=subprocess.DEVNULL,
        env=dict(os.environ, PYTHONPATH=os.path.join(repo, "src")),
    )
    import xml.etree.ElementTree as ET

    passed = set()
    for tc in ET.parse(xml).getroot().iter("testcase"):
        if not any(ch.tag in ("failure", "error", "skipped") for ch in tc):
            passed.add(f"{tc.get('classname')}::{tc.get('name')}")
    missing = [t for t in BASELINE if t not in passed]
    return missing


def main():
    args = [a for a in sys.argv[1:] if not a.startswith("--")]
    flags = [a for a in sys.argv[1:] if a.startswith("--")]
    patch, props = os.path.abspath(args[0]), args[1:]
    extra = []
    tier = "quick"
    for f in flags:
        if f.startswith("--examples="):
            extra += ["--examples", f.split("=")[1]]
        if f.startswith("--tier="):
            tier = f.split("=")[1]
    tmp = tempfile.mkdtemp(prefix="sens.", dir=os.environ.get("SENS_TMP", "/tmp"))
    try:
        repo = os.path.join(tmp, "repo")
        os.makedirs(repo)
        for item in ("src", "tests", "pyproject.toml"):
            s = os.path.join("/repo", item)
            if os.path.isdir(s):
                shutil.copytree(s, os.path.join(repo, item), ignore=shutil.ignore_patterns("__pycache__", "*.egg-info"))
            elif os.path.exists(s):
                shutil.copy(s, repo)
        r = subprocess.run(["patch", "-p1", "-s", "-i", patch], cwd=repo, capture_output=True, text=True)
        if r.returncode != 0:
            print("PATCH-FAILED", r.stdout, r.stderr)
            return 2
        result = {"patch": os.path.relpath(patch, ROOT), "baseline_missing": None, "checks": {}}
        if "--no-baseline" not in flags:
            result["baseline_missing"] = baseline_ok(repo)
        # run checks from a scratch copy of /verif so evidence/replays of the real tree are untouched
        vcopy = os.path.join(tmp, "verif")
        shutil.copytree(ROOT, vcopy, ignore=shutil.ignore_patterns(".git", "evidence", "__pycache__", "seeded", ".deps"))
        for p in props:
            env = dict(os.environ, VERIF_REPO=repo)
            r = subprocess.run([os.path.join(vcopy, "run.py"), p, "--tier", tier, "--no-shrink"] + extra, cwd=vcopy, env=env, capture_output=True, text=True)
            sigs = [l.strip() for l in r.stdout.splitlines() if l.strip().startswith("signature=")]
            result["checks"][p] = {"exit": r.returncode, "signatures": sigs[:6]}
            if r.returncode == 2:
                result["checks"][p]["stderr"] = r.stderr[-800:]
        print(json.dumps(result, indent=1))
        return 0
    finally:
        shutil.rmtree(tmp, ignore_errors=True)


if __name__ == "__main__":
    sys.exit(main())
