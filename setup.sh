#!/bin/sh
# Offline setup: nothing to build (pure Python). Make sure hypothesis imports in /venv; if it does not,
# install it from the offline wheelhouse next to the repository's packages.
set -e
cd "$(dirname "$0")"
if ! /venv/bin/python -c "import hypothesis" 2>/dev/null; then
  /venv/bin/pip install --no-index --find-links /opt/veriftools/wheels hypothesis
fi
/venv/bin/python -c "import hypothesis, numpy, casadi, networkx; print('deps ok: hypothesis', hypothesis.__version__)"
mkdir -p evidence replays
# coverage-guided tier (thorough only): atheris next to the repository's packages, from the offline wheelhouse
if ! PYTHONPATH=.deps /venv/bin/python -c "import atheris" 2>/dev/null; then
  /venv/bin/pip install -q --no-index --find-links /opt/veriftools/wheels --target .deps atheris || echo "atheris unavailable: thorough tiers skip the coverage-guided campaign"
fi
