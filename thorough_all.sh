#!/bin/sh
# Runs every thorough tier once (sequentially), keeps a copy of each evidence file under evidence_thorough/.
cd "$(dirname "$0")"
mkdir -p evidence_thorough
for c in ${@:-01 02 03 04 05 06 07 08 09 10 11 12 13 14 15 16 17 18 19}; do
  start=$(date +%s)
  out=$(./run.py C$c --tier thorough 2>&1); rc=$?
  end=$(date +%s)
  echo "C$c rc=$rc wall=$((end-start))s $(echo "$out" | grep -E '^C[0-9]+ tier')"
  if [ $rc -ne 0 ]; then echo "$out" | head -30; fi
  cp evidence/C$c.json evidence_thorough/C$c.json
done
